#![feature(allocator_api)]
#![allow(unused)]
use vstd::prelude::*;
use std::marker::PhantomData;
use std::ops::Deref;
use std::fmt::Display;
use std::rc::Rc;
use std::collections::{HashMap, HashSet};

macro_rules! assert_eq { ($a:expr, $b:expr $(,)?) => { $crate::rt_assert($a == $b) }; ($a:expr, $b:expr, $($t:tt)*) => { $crate::rt_assert($a == $b) } }
macro_rules! assert_ne { ($a:expr, $b:expr $(,)?) => { $crate::rt_assert($a != $b) }; ($a:expr, $b:expr, $($t:tt)*) => { $crate::rt_assert($a != $b) } }
macro_rules! assert { ($a:expr $(,)?) => { $crate::rt_assert($a) }; ($a:expr, $($t:tt)*) => { $crate::rt_assert($a) } }
macro_rules! panic { ($($t:tt)*) => { $crate::rt_panic() } }
macro_rules! format { ($($t:tt)*) => { $crate::fmt_stub() } }

verus! {

#[verifier::external_body]
pub fn fmt_stub() -> String { String::new() }
/// `s += &t` on strings (message assembly; contents are not modelled)
#[verifier::external_body]
pub fn str_append(s: &mut String, t: String) { }
#[verifier::external_body]
pub fn rt_assert(b: bool) requires b { }
#[verifier::external_body]
pub fn rt_panic() -> ! requires false { loop {} }

pub mod rust_decimal {
    use vstd::prelude::*;
    pub type Error = String;
    pub enum RoundingStrategy { MidpointAwayFromZero }

    #[verifier::external_body]
    pub struct Decimal { v: i128 }
    impl View for Decimal { type V = real; uninterp spec fn view(&self) -> real; }

    impl Clone for Decimal {
        #[verifier::external_body]
        fn clone(&self) -> (r: Self) ensures r@ == self@ { unimplemented!() }
    }
    impl Copy for Decimal {}

    pub open spec fn pow10(n: nat) -> real decreases n { if n == 0 { 1real } else { 10real * pow10((n - 1) as nat) } }
    pub uninterp spec fn spec_round_dp(d: real, dp: u32) -> real;
    pub open spec fn round_cent(d: real) -> real { spec_round_dp(d, 2) }
    pub broadcast proof fn axiom_round_cent(d: real)
        ensures
            -0.005real <= #[trigger] round_cent(d) - d <= 0.005real,
            d >= 0real ==> round_cent(d) >= 0real,
            d <= 0real ==> round_cent(d) <= 0real,
    { admit(); }
    pub uninterp spec fn spec_is_integer(d: real) -> bool;
    /// the value of `Decimal::MAX` (exec consts cannot be named in specifications)
    pub uninterp spec fn spec_dec_max() -> real;

    impl Decimal {
        #[verifier::external_body]
        pub fn is_zero(&self) -> (r: bool) ensures r == (self@ == 0real) { unimplemented!() }
        #[verifier::external_body]
        pub fn is_sign_positive(&self) -> (r: bool)
            ensures self@ > 0real ==> r, self@ < 0real ==> !r
        { unimplemented!() }
        #[verifier::external_body]
        pub fn is_sign_negative(&self) -> (r: bool)
            ensures self@ < 0real ==> r, self@ > 0real ==> !r
        { unimplemented!() }
        #[verifier::external_body]
        pub fn abs(&self) -> (r: Decimal)
            ensures r@ == (if self@ >= 0real { self@ } else { -self@ })
        { unimplemented!() }
        #[verifier::external_body]
        pub fn round_dp_with_strategy(&self, dp: u32, s: RoundingStrategy) -> (r: Decimal)
            ensures r@ == spec_round_dp(self@, dp)
        { unimplemented!() }
        #[verifier::external_body]
        pub fn from_str_exact(s: &str) -> (r: Result<Decimal, Error>) { unimplemented!() }
        #[verifier::external_body]
        pub fn to_string(&self) -> (r: String) { unimplemented!() }
        #[verifier::external_body]
        pub exec const ZERO: Decimal ensures Self::ZERO@ == 0real { Decimal { v: 0 } }
        #[verifier::external_body]
        pub exec const NEGATIVE_ONE: Decimal ensures Self::NEGATIVE_ONE@ == -1real { Decimal { v: -1 } }
        #[verifier::external_body]
        pub exec const MAX: Decimal ensures Self::MAX@ >= 79228162514264337593543950335real, Self::MAX@ == spec_dec_max() { Decimal { v: 0 } }
        #[verifier::external_body]
        pub fn new(num: i64, scale: u32) -> (r: Decimal) ensures r@ * pow10(scale as nat) == num as real { unimplemented!() }
        #[verifier::external_body]
        pub fn is_integer(&self) -> (r: bool) ensures r == spec_is_integer(self@) { unimplemented!() }
        #[verifier::external_body]
        pub fn max(self, o: Decimal) -> (r: Decimal) ensures r@ == (if self@ >= o@ { self@ } else { o@ }) { unimplemented!() }
        // --- the rest of the commonly used API, so that changed code that calls it still resolves; rounding
        //     functions are uninterpreted (banker's rounding to dp places: within half a unit of that place)
        #[verifier::external_body]
        pub fn min(self, o: Decimal) -> (r: Decimal) ensures r@ == (if self@ <= o@ { self@ } else { o@ }) { unimplemented!() }
        #[verifier::external_body]
        pub fn round_dp(&self, dp: u32) -> (r: Decimal) ensures r@ == spec_round_dp_even(self@, dp) { unimplemented!() }
        #[verifier::external_body]
        pub fn round(&self) -> (r: Decimal) ensures r@ == spec_round_dp_even(self@, 0) { unimplemented!() }
        #[verifier::external_body]
        pub fn trunc(&self) -> (r: Decimal) ensures r@ == spec_trunc(self@) { unimplemented!() }
        #[verifier::external_body]
        pub fn floor(&self) -> (r: Decimal) ensures r@ == spec_floor(self@) { unimplemented!() }
        #[verifier::external_body]
        pub fn ceil(&self) -> (r: Decimal) ensures r@ == -spec_floor(-self@) { unimplemented!() }
        #[verifier::external_body]
        pub fn fract(&self) -> (r: Decimal) ensures r@ == self@ - spec_trunc(self@) { unimplemented!() }
        #[verifier::external_body]
        pub fn normalize(&self) -> (r: Decimal) ensures r@ == self@ { unimplemented!() }
        #[verifier::external_body]
        pub fn scale(&self) -> (r: u32) { unimplemented!() }
        #[verifier::external_body]
        pub fn zero() -> (r: Decimal) ensures r@ == 0real { unimplemented!() }
        #[verifier::external_body]
        pub fn one() -> (r: Decimal) ensures r@ == 1real { unimplemented!() }
        #[verifier::external_body]
        pub exec const ONE: Decimal ensures Self::ONE@ == 1real { Decimal { v: 1 } }
        #[verifier::external_body]
        pub exec const TWO: Decimal ensures Self::TWO@ == 2real { Decimal { v: 2 } }
        #[verifier::external_body]
        pub exec const TEN: Decimal ensures Self::TEN@ == 10real { Decimal { v: 10 } }
        #[verifier::external_body]
        pub exec const ONE_HUNDRED: Decimal ensures Self::ONE_HUNDRED@ == 100real { Decimal { v: 100 } }
        #[verifier::external_body]
        pub exec const MIN: Decimal ensures Self::MIN@ <= -79228162514264337593543950335real { Decimal { v: 0 } }
        #[verifier::external_body]
        pub fn checked_div(self, o: Decimal) -> (r: Option<Decimal>) ensures o@ == 0real ==> r is None, r is Some ==> o@ != 0real && r->Some_0@ == self@ / o@ { unimplemented!() }
        #[verifier::external_body]
        pub fn checked_mul(self, o: Decimal) -> (r: Option<Decimal>) ensures r is Some ==> r->Some_0@ == self@ * o@ { unimplemented!() }
        #[verifier::external_body]
        pub fn checked_add(self, o: Decimal) -> (r: Option<Decimal>) ensures r is Some ==> r->Some_0@ == self@ + o@ { unimplemented!() }
        #[verifier::external_body]
        pub fn checked_sub(self, o: Decimal) -> (r: Option<Decimal>) ensures r is Some ==> r->Some_0@ == self@ - o@ { unimplemented!() }
        #[verifier::external_body]
        pub fn from_str(s: &str) -> (r: Result<Decimal, Error>)
            ensures r is Ok <==> spec_parse(s@) is Some, r is Ok ==> r->Ok_0@ == spec_parse(s@)->Some_0
        { unimplemented!() }
        /// FromPrimitive: every i64 is representable (96-bit mantissa)
        #[verifier::external_body]
        pub fn from_i64(v: i64) -> (r: Option<Decimal>) ensures r is Some, r->Some_0@ == v as real { unimplemented!() }
        #[verifier::external_body]
        pub fn from_f64(v: f64) -> (r: Option<Decimal>)
            ensures r is Some <==> spec_of_f64(v) is Some, r is Some ==> r->Some_0@ == spec_of_f64(v)->Some_0
        { unimplemented!() }
    }
    /// the number a text denotes for `Decimal::from_str` (None: not a number); a function of the text
    pub uninterp spec fn spec_parse(s: Seq<char>) -> Option<real>;
    pub uninterp spec fn spec_of_f64(v: f64) -> Option<real>;
    pub uninterp spec fn spec_round_dp_even(d: real, dp: u32) -> real;
    pub uninterp spec fn spec_trunc(d: real) -> real;
    pub uninterp spec fn spec_floor(d: real) -> real;
    impl std::ops::Neg for Decimal { type Output = Decimal;
        #[verifier::external_body] fn neg(self) -> (r: Decimal) ensures r@ == -self@ { unimplemented!() } }
    impl vstd::std_specs::ops::NegSpecImpl for Decimal {
        open spec fn obeys_neg_spec() -> bool { false }
        open spec fn neg_req(self) -> bool { true }
        uninterp spec fn neg_spec(self) -> Decimal; }
    impl From<i32> for Decimal { #[verifier::external_body] fn from(n: i32) -> (r: Decimal) ensures r@ == n as real { unimplemented!() } }
    impl vstd::std_specs::convert::FromSpecImpl<i32> for Decimal {
        open spec fn obeys_from_spec() -> bool { false }
        uninterp spec fn from_spec(v: i32) -> Decimal; }
    impl From<u32> for Decimal { #[verifier::external_body] fn from(n: u32) -> (r: Decimal) ensures r@ == n as real { unimplemented!() } }
    impl vstd::std_specs::convert::FromSpecImpl<u32> for Decimal {
        open spec fn obeys_from_spec() -> bool { false }
        uninterp spec fn from_spec(v: u32) -> Decimal; }
    impl From<i64> for Decimal { #[verifier::external_body] fn from(n: i64) -> (r: Decimal) ensures r@ == n as real { unimplemented!() } }
    impl vstd::std_specs::convert::FromSpecImpl<i64> for Decimal {
        open spec fn obeys_from_spec() -> bool { false }
        uninterp spec fn from_spec(v: i64) -> Decimal; }

    #[verifier::external_body]
    pub fn dec_lit(Ghost(g): Ghost<real>) -> (r: Decimal) ensures r@ == g { unimplemented!() }

    impl PartialEq for Decimal {
        #[verifier::external_body]
        fn eq(&self, o: &Decimal) -> (r: bool) ensures r == (self@ == o@) { unimplemented!() }
    }
    impl Eq for Decimal {}
    impl vstd::std_specs::cmp::PartialEqSpecImpl for Decimal {
        open spec fn obeys_eq_spec() -> bool { true }
        open spec fn eq_spec(&self, o: &Decimal) -> bool { self@ == o@ }
    }
    impl PartialOrd for Decimal {
        #[verifier::external_body]
        fn partial_cmp(&self, o: &Decimal) -> (r: Option<std::cmp::Ordering>) { unimplemented!() }
    }
    impl vstd::std_specs::cmp::PartialOrdSpecImpl for Decimal {
        open spec fn obeys_partial_cmp_spec() -> bool { true }
        open spec fn partial_cmp_spec(&self, o: &Decimal) -> Option<std::cmp::Ordering> {
            if self@ < o@ { Some(std::cmp::Ordering::Less) } else if self@ > o@ { Some(std::cmp::Ordering::Greater) } else { Some(std::cmp::Ordering::Equal) }
        }
    }

    impl Ord for Decimal {
        #[verifier::external_body]
        fn cmp(&self, o: &Decimal) -> (r: std::cmp::Ordering) { unimplemented!() }
    }
    impl vstd::std_specs::cmp::OrdSpecImpl for Decimal {
        open spec fn obeys_cmp_spec() -> bool { true }
        open spec fn cmp_spec(&self, o: &Decimal) -> std::cmp::Ordering {
            if self@ < o@ { std::cmp::Ordering::Less } else if self@ > o@ { std::cmp::Ordering::Greater } else { std::cmp::Ordering::Equal }
        }
    }

    impl std::ops::Add for Decimal { type Output = Decimal;
        #[verifier::external_body] fn add(self, rhs: Decimal) -> (r: Decimal) ensures r@ == self@ + rhs@ { unimplemented!() } }
    impl std::ops::Sub for Decimal { type Output = Decimal;
        #[verifier::external_body] fn sub(self, rhs: Decimal) -> (r: Decimal) ensures r@ == self@ - rhs@ { unimplemented!() } }
    impl std::ops::Mul for Decimal { type Output = Decimal;
        #[verifier::external_body] fn mul(self, rhs: Decimal) -> (r: Decimal) ensures r@ == self@ * rhs@ { unimplemented!() } }
    impl std::ops::Div for Decimal { type Output = Decimal;
        #[verifier::external_body] fn div(self, rhs: Decimal) -> (r: Decimal) ensures r@ == self@ / rhs@ { unimplemented!() } }
    impl std::ops::AddAssign for Decimal {
        #[verifier::external_body] fn add_assign(&mut self, rhs: Decimal) ensures final(self)@ == old(self)@ + rhs@ { unimplemented!() } }
    impl vstd::std_specs::ops::AddAssignSpecImpl for Decimal {
        open spec fn obeys_add_assign_spec() -> bool { false }
        open spec fn add_assign_req(&self, rhs: Decimal) -> bool { true }
        uninterp spec fn add_assign_spec(&self, rhs: Decimal) -> &Decimal; }
    impl<'a> std::ops::Add<Decimal> for &'a Decimal { type Output = Decimal;
        #[verifier::external_body] fn add(self, rhs: Decimal) -> (r: Decimal) ensures r@ == self@ + rhs@ { unimplemented!() } }
    impl<'a> vstd::std_specs::ops::AddSpecImpl<Decimal> for &'a Decimal {
        open spec fn obeys_add_spec() -> bool { false }
        open spec fn add_req(self, rhs: Decimal) -> bool { true }
        uninterp spec fn add_spec(self, rhs: Decimal) -> Decimal; }
    impl<'a, 'b> std::ops::Add<&'b Decimal> for &'a Decimal { type Output = Decimal;
        #[verifier::external_body] fn add(self, rhs: &'b Decimal) -> (r: Decimal) ensures r@ == self@ + rhs@ { unimplemented!() } }
    impl<'a, 'b> vstd::std_specs::ops::AddSpecImpl<&'b Decimal> for &'a Decimal {
        open spec fn obeys_add_spec() -> bool { false }
        open spec fn add_req(self, rhs: &'b Decimal) -> bool { true }
        uninterp spec fn add_spec(self, rhs: &'b Decimal) -> Decimal; }
    // the reference forms of the arithmetic operators (rust_decimal implements all combinations)
    impl<'a> std::ops::Sub<Decimal> for &'a Decimal { type Output = Decimal;
        #[verifier::external_body] fn sub(self, rhs: Decimal) -> (r: Decimal) ensures r@ == self@ - rhs@ { unimplemented!() } }
    impl<'a> vstd::std_specs::ops::SubSpecImpl<Decimal> for &'a Decimal {
        open spec fn obeys_sub_spec() -> bool { false }
        open spec fn sub_req(self, rhs: Decimal) -> bool { true }
        uninterp spec fn sub_spec(self, rhs: Decimal) -> Decimal; }
    impl<'a, 'b> std::ops::Sub<&'b Decimal> for &'a Decimal { type Output = Decimal;
        #[verifier::external_body] fn sub(self, rhs: &'b Decimal) -> (r: Decimal) ensures r@ == self@ - rhs@ { unimplemented!() } }
    impl<'a, 'b> vstd::std_specs::ops::SubSpecImpl<&'b Decimal> for &'a Decimal {
        open spec fn obeys_sub_spec() -> bool { false }
        open spec fn sub_req(self, rhs: &'b Decimal) -> bool { true }
        uninterp spec fn sub_spec(self, rhs: &'b Decimal) -> Decimal; }
    impl<'b> std::ops::Sub<&'b Decimal> for Decimal { type Output = Decimal;
        #[verifier::external_body] fn sub(self, rhs: &'b Decimal) -> (r: Decimal) ensures r@ == self@ - rhs@ { unimplemented!() } }
    impl<'b> vstd::std_specs::ops::SubSpecImpl<&'b Decimal> for Decimal {
        open spec fn obeys_sub_spec() -> bool { false }
        open spec fn sub_req(self, rhs: &'b Decimal) -> bool { true }
        uninterp spec fn sub_spec(self, rhs: &'b Decimal) -> Decimal; }
    impl<'a> std::ops::Mul<Decimal> for &'a Decimal { type Output = Decimal;
        #[verifier::external_body] fn mul(self, rhs: Decimal) -> (r: Decimal) ensures r@ == self@ * rhs@ { unimplemented!() } }
    impl<'a> vstd::std_specs::ops::MulSpecImpl<Decimal> for &'a Decimal {
        open spec fn obeys_mul_spec() -> bool { false }
        open spec fn mul_req(self, rhs: Decimal) -> bool { true }
        uninterp spec fn mul_spec(self, rhs: Decimal) -> Decimal; }
    impl<'a, 'b> std::ops::Mul<&'b Decimal> for &'a Decimal { type Output = Decimal;
        #[verifier::external_body] fn mul(self, rhs: &'b Decimal) -> (r: Decimal) ensures r@ == self@ * rhs@ { unimplemented!() } }
    impl<'a, 'b> vstd::std_specs::ops::MulSpecImpl<&'b Decimal> for &'a Decimal {
        open spec fn obeys_mul_spec() -> bool { false }
        open spec fn mul_req(self, rhs: &'b Decimal) -> bool { true }
        uninterp spec fn mul_spec(self, rhs: &'b Decimal) -> Decimal; }
    impl<'b> std::ops::Mul<&'b Decimal> for Decimal { type Output = Decimal;
        #[verifier::external_body] fn mul(self, rhs: &'b Decimal) -> (r: Decimal) ensures r@ == self@ * rhs@ { unimplemented!() } }
    impl<'b> vstd::std_specs::ops::MulSpecImpl<&'b Decimal> for Decimal {
        open spec fn obeys_mul_spec() -> bool { false }
        open spec fn mul_req(self, rhs: &'b Decimal) -> bool { true }
        uninterp spec fn mul_spec(self, rhs: &'b Decimal) -> Decimal; }
    impl<'a> std::ops::Div<Decimal> for &'a Decimal { type Output = Decimal;
        #[verifier::external_body] fn div(self, rhs: Decimal) -> (r: Decimal) ensures r@ == self@ / rhs@ { unimplemented!() } }
    impl<'a> vstd::std_specs::ops::DivSpecImpl<Decimal> for &'a Decimal {
        open spec fn obeys_div_spec() -> bool { false }
        open spec fn div_req(self, rhs: Decimal) -> bool { rhs@ != 0real }
        uninterp spec fn div_spec(self, rhs: Decimal) -> Decimal; }
    impl<'a, 'b> std::ops::Div<&'b Decimal> for &'a Decimal { type Output = Decimal;
        #[verifier::external_body] fn div(self, rhs: &'b Decimal) -> (r: Decimal) ensures r@ == self@ / rhs@ { unimplemented!() } }
    impl<'a, 'b> vstd::std_specs::ops::DivSpecImpl<&'b Decimal> for &'a Decimal {
        open spec fn obeys_div_spec() -> bool { false }
        open spec fn div_req(self, rhs: &'b Decimal) -> bool { rhs@ != 0real }
        uninterp spec fn div_spec(self, rhs: &'b Decimal) -> Decimal; }
    impl<'b> std::ops::Div<&'b Decimal> for Decimal { type Output = Decimal;
        #[verifier::external_body] fn div(self, rhs: &'b Decimal) -> (r: Decimal) ensures r@ == self@ / rhs@ { unimplemented!() } }
    impl<'b> vstd::std_specs::ops::DivSpecImpl<&'b Decimal> for Decimal {
        open spec fn obeys_div_spec() -> bool { false }
        open spec fn div_req(self, rhs: &'b Decimal) -> bool { rhs@ != 0real }
        uninterp spec fn div_spec(self, rhs: &'b Decimal) -> Decimal; }
    impl<'b> std::ops::Add<&'b Decimal> for Decimal { type Output = Decimal;
        #[verifier::external_body] fn add(self, rhs: &'b Decimal) -> (r: Decimal) ensures r@ == self@ + rhs@ { unimplemented!() } }
    impl<'b> vstd::std_specs::ops::AddSpecImpl<&'b Decimal> for Decimal {
        open spec fn obeys_add_spec() -> bool { false }
        open spec fn add_req(self, rhs: &'b Decimal) -> bool { true }
        uninterp spec fn add_spec(self, rhs: &'b Decimal) -> Decimal; }
    impl std::ops::MulAssign for Decimal {
        #[verifier::external_body] fn mul_assign(&mut self, rhs: Decimal) ensures final(self)@ == old(self)@ * rhs@ { unimplemented!() } }
    impl vstd::std_specs::ops::MulAssignSpecImpl for Decimal {
        open spec fn obeys_mul_assign_spec() -> bool { false }
        open spec fn mul_assign_req(&self, rhs: Decimal) -> bool { true }
        uninterp spec fn mul_assign_spec(&self, rhs: Decimal) -> &Decimal; }
    impl std::ops::SubAssign for Decimal {
        #[verifier::external_body] fn sub_assign(&mut self, rhs: Decimal) ensures final(self)@ == old(self)@ - rhs@ { unimplemented!() } }
    impl vstd::std_specs::ops::SubAssignSpecImpl for Decimal {
        open spec fn obeys_sub_assign_spec() -> bool { false }
        open spec fn sub_assign_req(&self, rhs: Decimal) -> bool { true }
        uninterp spec fn sub_assign_spec(&self, rhs: Decimal) -> &Decimal; }
    impl From<usize> for Decimal { #[verifier::external_body] fn from(n: usize) -> (r: Decimal) ensures r@ == n as real { unimplemented!() } }
    impl vstd::std_specs::convert::FromSpecImpl<usize> for Decimal {
        open spec fn obeys_from_spec() -> bool { false }
        uninterp spec fn from_spec(v: usize) -> Decimal; }
    impl vstd::std_specs::ops::AddSpecImpl for Decimal {
        open spec fn obeys_add_spec() -> bool { false }
        open spec fn add_req(self, rhs: Decimal) -> bool { true }
        uninterp spec fn add_spec(self, rhs: Decimal) -> Decimal; }
    impl vstd::std_specs::ops::SubSpecImpl for Decimal {
        open spec fn obeys_sub_spec() -> bool { false }
        open spec fn sub_req(self, rhs: Decimal) -> bool { true }
        uninterp spec fn sub_spec(self, rhs: Decimal) -> Decimal; }
    impl vstd::std_specs::ops::MulSpecImpl for Decimal {
        open spec fn obeys_mul_spec() -> bool { false }
        open spec fn mul_req(self, rhs: Decimal) -> bool { true }
        uninterp spec fn mul_spec(self, rhs: Decimal) -> Decimal; }
    impl vstd::std_specs::ops::DivSpecImpl for Decimal {
        open spec fn obeys_div_spec() -> bool { false }
        open spec fn div_req(self, rhs: Decimal) -> bool { rhs@ != 0real }
        uninterp spec fn div_spec(self, rhs: Decimal) -> Decimal; }
}
use rust_decimal::Decimal;

} // verus!
verus! {
pub mod time {
    use vstd::prelude::*;
    pub struct Duration { d: i64 }
    impl Duration {
        pub closed spec fn spec_days(&self) -> int { self.d as int }
        #[verifier::external_body]
        pub fn days(n: i64) -> (r: Duration) ensures r.spec_days() == n { Duration { d: n } }
        #[verifier::external_body]
        pub fn whole_days(&self) -> (r: i64) ensures r == self.spec_days() { self.d }
    }
    pub enum Month { January, February, March, April, May, June, July, August, September, October, November, December }
    pub struct Date { jd: i32 }
    pub open spec fn date_min() -> int { -3652425 }
    pub open spec fn date_max() -> int { 3652424 }
    pub open spec fn clamp(x: int) -> int { if x < date_min() { date_min() } else if x > date_max() { date_max() } else { x } }
    impl View for Date { type V = int; closed spec fn view(&self) -> int { self.jd as int } }
    impl Clone for Date { #[verifier::external_body] fn clone(&self) -> (r: Self) ensures r@ == self@ { Date{jd: self.jd} } }
    impl Copy for Date {}
    pub uninterp spec fn spec_year(d: int) -> int;
    /// Display text of a date (`%Y-%m-%d`): a function of the day
    pub uninterp spec fn spec_date_text(d: int) -> Seq<char>;
    impl Date {
        #[verifier::external_body]
        pub fn saturating_sub(self, d: Duration) -> (r: Date) ensures r@ == clamp(self@ - d.spec_days()) { unimplemented!() }
        #[verifier::external_body]
        pub fn saturating_add(self, d: Duration) -> (r: Date) ensures r@ == clamp(self@ + d.spec_days()) { unimplemented!() }
        #[verifier::external_body]
        pub fn year(self) -> (r: i32) ensures r == spec_year(self@) { unimplemented!() }
        #[verifier::external_body]
        pub fn to_string(&self) -> (r: String) ensures r@ == spec_date_text(self@) { unimplemented!() }
    }
    impl vstd::std_specs::cmp::PartialEqSpecImpl for Date {
        open spec fn obeys_eq_spec() -> bool { true }
        open spec fn eq_spec(&self, o: &Date) -> bool { self@ == o@ }
    }
    impl vstd::std_specs::cmp::PartialOrdSpecImpl for Date {
        open spec fn obeys_partial_cmp_spec() -> bool { true }
        open spec fn partial_cmp_spec(&self, o: &Date) -> Option<std::cmp::Ordering> {
            if self@ < o@ { Some(std::cmp::Ordering::Less) } else if self@ > o@ { Some(std::cmp::Ordering::Greater) } else { Some(std::cmp::Ordering::Equal) }
        }
    }
    impl vstd::std_specs::cmp::OrdSpecImpl for Date {
        open spec fn obeys_cmp_spec() -> bool { true }
        open spec fn cmp_spec(&self, o: &Date) -> std::cmp::Ordering {
            if self@ < o@ { std::cmp::Ordering::Less } else if self@ > o@ { std::cmp::Ordering::Greater } else { std::cmp::Ordering::Equal }
        }
    }
    impl PartialEq for Date { #[verifier::external_body] fn eq(&self, o: &Date) -> (r: bool) { self.jd == o.jd } }
    impl Eq for Date {}
    impl PartialOrd for Date { #[verifier::external_body] fn partial_cmp(&self, o: &Date) -> (r: Option<std::cmp::Ordering>) { unimplemented!() } }
    impl std::hash::Hash for Date { #[verifier::external_body] fn hash<H: std::hash::Hasher>(&self, state: &mut H) { unimplemented!() } }
    pub uninterp spec fn spec_jan1(y: int) -> int;
    /// trusted calendar facts (crate `time`): years are consecutive intervals of day numbers starting at Jan 1
    pub broadcast proof fn axiom_year_interval(d: int, y: int)
        requires date_min() <= d <= date_max(), -9999 <= y <= 9999
        ensures (#[trigger] spec_year(d) == y) <==> (#[trigger] spec_jan1(y) <= d < spec_jan1(y + 1))
    { admit(); }
    pub broadcast proof fn axiom_jan1_range(y: int)
        requires -9999 <= y <= 9999
        ensures date_min() <= #[trigger] spec_jan1(y) < spec_jan1(y + 1) <= date_max() + 1
    { admit(); }
    pub broadcast proof fn axiom_year_bounds(d: int)
        requires date_min() <= d <= date_max()
        ensures -9999 <= #[trigger] spec_year(d) <= 9999
    { admit(); }
    pub broadcast proof fn axiom_date_range(d: Date)
        ensures date_min() <= #[trigger] d@ <= date_max()
    { admit(); }
    impl Date {
        #[verifier::external_body]
        pub fn from_calendar_date(y: i32, m: Month, d: u8) -> (r: Result<Date, ()>)
            ensures (m is January && d == 1 && -9999 <= y <= 9999) ==> r is Ok && r->Ok_0@ == spec_jan1(y as int)
        { unimplemented!() }
    }
    impl Ord for Date { #[verifier::external_body] fn cmp(&self, o: &Date) -> (r: std::cmp::Ordering) { unimplemented!() } }
    impl std::ops::Sub for Date { type Output = Duration;
        #[verifier::external_body] fn sub(self, rhs: Date) -> (r: Duration) ensures r.spec_days() == self@ - rhs@ { unimplemented!() } }
    impl vstd::std_specs::ops::SubSpecImpl for Date {
        open spec fn obeys_sub_spec() -> bool { false }
        open spec fn sub_req(self, rhs: Date) -> bool { true }
        uninterp spec fn sub_spec(self, rhs: Date) -> Duration; }
    pub broadcast proof fn axiom_date_key_model()
        ensures #[trigger] vstd::std_specs::hash::obeys_key_model::<Date>()
    { admit(); }
    pub broadcast proof fn axiom_date_inj(a: Date, b: Date)
        ensures #[trigger] a@ == #[trigger] b@ ==> a == b
    { admit(); }
}
} // verus!
pub mod tracing {
    macro_rules! debug { ($($t:tt)*) => { () } }
    macro_rules! trace { ($($t:tt)*) => { () } }
    macro_rules! info { ($($t:tt)*) => { () } }
    macro_rules! error { ($($t:tt)*) => { () } }
    pub(crate) use {debug, trace, info, error};
}
