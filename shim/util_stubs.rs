pub mod rw {
use vstd::prelude::*;
/// stand-in for util::rw::WriteHandle (an error stream): writes are not modelled
pub struct WriteHandle { x: u8 }
    impl Clone for WriteHandle { #[verifier::external_body] fn clone(&self) -> Self { unimplemented!() } }
impl WriteHandle { #[verifier::external_body] pub fn stdout_write_handle() -> WriteHandle { unimplemented!() } #[verifier::external_body] pub fn stderr_write_handle() -> WriteHandle { unimplemented!() } #[verifier::external_body] pub fn emit(&mut self) {} #[verifier::external_body] pub fn flush(&mut self) -> Result<(),()> { Ok(()) } }
}
pub mod date {
use vstd::prelude::*;
use crate::time::Date;
/// the local date of this run: one unknown per run
pub uninterp spec fn spec_today() -> int;
#[verifier::external_body]
pub fn today_local() -> (r: Date) ensures r@ == spec_today() { unimplemented!() }
/// util::date::parse_standard_date
#[verifier::external_body]
pub fn parse_standard_date(s: &str) -> Result<Date, DateParseError> { unimplemented!() }
/// util::date::parse_date (time crate parsing): the date a text denotes under a format, a function of both
pub uninterp spec fn spec_parse_date(s: Seq<char>, fmt: &Option<crate::util::date_fmt::DynDateFormat>) -> Option<int>;
#[verifier::external_body]
pub struct DateParseError { x: u8 }
#[verifier::external_body]
pub fn parse_date(date_str: &str, fmt: &Option<crate::util::date_fmt::DynDateFormat>) -> (r: Result<Date, DateParseError>)
    ensures r is Ok <==> spec_parse_date(date_str@, fmt) is Some, r is Ok ==> r->Ok_0@ == spec_parse_date(date_str@, fmt)->Some_0
{ unimplemented!() }
}
pub mod rw_reader {
use vstd::prelude::*;
/// stand-in for util::rw::DescribedReader (a named byte source); reading is not modelled
#[verifier::external_body]
pub struct DescribedReader { x: u8 }
impl DescribedReader { #[verifier::external_body] pub fn desc(&self) -> &str { unimplemented!() }
    /// `DescribedReader::from_file_path(PathBuf::from(name))`
    #[verifier::external_body] pub fn from_file_name(name: String) -> (r: DescribedReader) ensures spec_named(&r) == name@ { unimplemented!() } }
/// the file name a reader was made from
pub uninterp spec fn spec_named(r: &DescribedReader) -> Seq<char>;
}
pub mod date_fmt {
use vstd::prelude::*;
/// stand-in for util::date::DynDateFormat (time::format_description::OwnedFormatItem)
#[verifier::external_body]
pub struct DynDateFormat { x: u8 }
/// util::date::parse_dyn_date_format
#[verifier::external_body]
pub fn parse_dyn_date_format(fmt: &str) -> Result<DynDateFormat, String> { unimplemented!() }
}
