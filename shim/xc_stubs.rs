verus! {
/// Stand-ins for what tx_export_convert_impl.rs uses besides the modules already extracted: the regex crate (a pattern
/// as an opaque value, what it matches = uninterpreted), the two table writers (constructors only; what a writer does
/// with a table is the ghost log of the AcbWriter contract). ASSUMED.
pub mod regex {
    use vstd::prelude::*;
    #[verifier::external_body]
    pub struct Regex { x: u8 }
    pub uninterp spec fn spec_is_match(re: &Regex, s: Seq<char>) -> bool;
    impl Regex {
        #[verifier::external_body]
        pub fn is_match(&self, s: &str) -> (r: bool) ensures r == spec_is_match(self, s@) { unimplemented!() }
    }
}
pub mod xcx {
    use vstd::prelude::*;
    /// H: `account.account_str()` ("{account type} {account number}"): a function of the account
    pub uninterp spec fn spec_account_text(a: crate::peripheral::broker::Account) -> Seq<char>;
    #[verifier::external_body]
    pub fn account_str(a: &crate::peripheral::broker::Account) -> (r: String) ensures r@ == spec_account_text(*a) { unimplemented!() }
    /// `s.ends_with(".FX")`
    pub uninterp spec fn spec_is_fx_symbol(s: Seq<char>) -> bool;
    #[verifier::external_body]
    pub fn ends_with_fx(s: &String) -> (r: bool) ensures r == spec_is_fx_symbol(s@) { unimplemented!() }
}
} // verus!
