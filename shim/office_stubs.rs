verus! {
/// Stand-ins for std iterator adapters over a finite sequence (`into_iter / enumerate / filter_map / map / collect`,
/// `HashMap::from_iter`): each adapter is its strongest postcondition in terms of the closure's own contract.
/// ASSUMED (std is not verified here); the chain in the repository keeps its own text and its own closures.
pub mod itx {
    use vstd::prelude::*;
    use std::collections::HashMap;
    #[verifier::external_body]
    #[verifier::reject_recursive_types(T)]
    pub struct SeqIt<T> { v: Vec<T> }
    /// trigger of the "every position was looked at" clauses: stated for the positions a proof asks about (`assert(mark(j))`),
    /// so that the positions the "kept" clause mentions do not re-trigger it (a matching loop otherwise)
    pub open spec fn mark(j: int) -> bool { true }
    /// `idx` picks, in increasing order, positions below n
    pub open spec fn picks(idx: Seq<int>, n: int) -> bool {
        (forall|k: int| 0 <= k < idx.len() ==> 0 <= #[trigger] idx[k] < n)
        && (forall|k: int, l: int| 0 <= k < l < idx.len() ==> idx[k] < idx[l])
    }
    /// o = the Some-results of f over s, in order; idx = the positions that were kept
    pub open spec fn fm_rel<T, U, F: FnMut(T) -> Option<U>>(f: F, s: Seq<T>, o: Seq<U>, idx: Seq<int>) -> bool {
        idx.len() == o.len() && picks(idx, s.len() as int)
        && (forall|k: int| #![trigger o[k]] #![trigger idx[k]] 0 <= k < o.len() ==> f.ensures((s[idx[k]],), Some(o[k])))
        && (forall|j: int| #[trigger] mark(j) && 0 <= j < s.len() ==> (exists|k: int| 0 <= k < idx.len() && #[trigger] idx[k] == j) || f.ensures((s[j],), None))
    }
    pub open spec fn flt_rel<T, F: FnMut(&T) -> bool>(f: F, s: Seq<T>, o: Seq<T>, idx: Seq<int>) -> bool {
        idx.len() == o.len() && picks(idx, s.len() as int)
        && (forall|k: int| #![trigger o[k]] #![trigger idx[k]] 0 <= k < o.len() ==> o[k] == s[idx[k]] && f.ensures((&s[idx[k]],), true))
        && (forall|j: int| #[trigger] mark(j) && 0 <= j < s.len() ==> (exists|k: int| 0 <= k < idx.len() && #[trigger] idx[k] == j) || f.ensures((&s[j],), false))
    }
    pub open spec fn spec_enumerate<T>(s: Seq<T>) -> Seq<(usize, T)> { Seq::new(s.len(), |i: int| (i as usize, s[i])) }
    pub open spec fn spec_refs<'a, T>(s: Seq<T>) -> Seq<&'a T> { Seq::new(s.len(), |i: int| &s[i]) }
    impl<T> SeqIt<T> {
        pub uninterp spec fn view(&self) -> Seq<T>;
        #[verifier::external_body]
        pub fn enumerate(self) -> (r: SeqIt<(usize, T)>)
            ensures r@ == spec_enumerate(self@)
        { unimplemented!() }
        #[verifier::external_body]
        pub fn filter_map<U, F: FnMut(T) -> Option<U>>(self, f: F) -> (r: SeqIt<U>)
            requires forall|i: int| 0 <= i < self@.len() ==> f.requires((#[trigger] self@[i],))
            ensures exists|idx: Seq<int>| #[trigger] fm_rel(f, self@, r@, idx)
        { unimplemented!() }
        #[verifier::external_body]
        pub fn map<U, F: FnMut(T) -> U>(self, f: F) -> (r: SeqIt<U>)
            requires forall|i: int| 0 <= i < self@.len() ==> f.requires((#[trigger] self@[i],))
            ensures r@.len() == self@.len(),
                forall|i: int| #![trigger r@[i]] #![trigger self@[i]] 0 <= i < self@.len() ==> f.ensures((self@[i],), r@[i])
        { unimplemented!() }
        /// `filter`: the elements the predicate accepts, in order (the predicate sees a reference)
        #[verifier::external_body]
        pub fn filter<F: FnMut(&T) -> bool>(self, f: F) -> (r: SeqIt<T>)
            requires forall|i: int| 0 <= i < self@.len() ==> f.requires((&#[trigger] self@[i],))
            ensures exists|idx: Seq<int>| #[trigger] flt_rel(f, self@, r@, idx)
        { unimplemented!() }
        #[verifier::external_body]
        pub fn collect(self) -> (v: Vec<T>) ensures v@ == self@ { unimplemented!() }
    }
    /// `<&[T]>::into_iter()`
    #[verifier::external_body]
    pub fn slice_iter<'a, T>(s: &'a [T]) -> (r: SeqIt<&'a T>)
        ensures r@ == spec_refs(s@), s@.len() <= usize::MAX
    { unimplemented!() }
    /// `Vec<T>::into_iter()`
    #[verifier::external_body]
    pub fn vec_iter<T>(s: Vec<T>) -> (r: SeqIt<T>) ensures r@ == s@ { unimplemented!() }
    /// `HashSet::from([a, b, ..])`
    #[verifier::external_body]
    pub fn hashset_from<K: std::hash::Hash + Eq, const N: usize>(a: [K; N]) -> (m: std::collections::HashSet<K>)
        ensures vstd::std_specs::hash::obeys_key_model::<K>() ==> forall|k: K| #[trigger] m@.contains(k) <==> a@.contains(k)
    { unimplemented!() }
    /// `HashMap::from_iter`: exactly the keys of the pairs; a later pair overwrites an earlier one
    #[verifier::external_body]
    pub fn hashmap_from_iter<K: std::hash::Hash + Eq, V>(it: SeqIt<(K, V)>) -> (m: HashMap<K, V>)
        ensures vstd::std_specs::hash::obeys_key_model::<K>() ==> (
            (forall|k: K| #[trigger] m@.contains_key(k) <==> exists|i: int| 0 <= i < it@.len() && (#[trigger] it@[i]).0 == k)
            && (forall|k: K| #[trigger] m@.contains_key(k) ==> exists|i: int| 0 <= i < it@.len() && #[trigger] it@[i] == (k, m@[k])
                    && forall|j: int| i < j < it@.len() ==> (#[trigger] it@[j]).0 != k))
    { unimplemented!() }
}

/// Facts about `String` keys looked up by `&str` (std `Borrow<str>`), which vstd states only for K == Q and Box<Q>. ASSUMED.
pub mod strkey {
    use vstd::prelude::*;
    pub broadcast axiom fn axiom_contains_str_key<V>(m: Map<String, V>, k: &str)
        ensures #[trigger] vstd::std_specs::hash::contains_borrowed_key::<String, V, str>(m, k) <==> exists|s: String| #[trigger] m.contains_key(s) && s@ == k@;
    pub broadcast axiom fn axiom_maps_str_key<V>(m: Map<String, V>, k: &str, v: V)
        ensures #[trigger] vstd::std_specs::hash::maps_borrowed_key_to_value::<String, V, str>(m, k, v) <==> exists|s: String| #[trigger] m.contains_key(s) && s@ == k@ && m[s] == v;
    pub broadcast group group_strkey { axiom_contains_str_key, axiom_maps_str_key }
}

/// Stand-in for the `office` crate (xlsx reader): cell values and the row iterator of a sheet.
pub mod office {
    use vstd::prelude::*;
    #[verifier::external_body]
    pub struct CellErrorType { x: u8 }
    pub enum DataType { Int(i64), Float(f64), String(String), Bool(bool), Error(CellErrorType), Empty }
    #[verifier::external_body]
    pub struct Rows<'a> { x: &'a u8 }
    impl<'a> Rows<'a> {
        /// the rows not yet handed out
        pub uninterp spec fn rest(&self) -> Seq<Seq<DataType>>;
        #[verifier::external_body]
        pub fn next(&mut self) -> (r: Option<&'a [DataType]>)
            ensures old(self).rest().len() == 0 ==> r is None && final(self).rest() == old(self).rest(),
                old(self).rest().len() > 0 ==> r is Some && r->Some_0@ == old(self).rest()[0] && final(self).rest() == old(self).rest().drop_first()
        { unimplemented!() }
    }
    /// `x.to_string()` of a bool / integer / float cell: a function of the value
    pub uninterp spec fn spec_bool_text(b: bool) -> Seq<char>;
    pub uninterp spec fn spec_int_text(v: i64) -> Seq<char>;
    pub uninterp spec fn spec_float_text(v: f64) -> Seq<char>;
    #[verifier::external_body]
    pub fn bool_to_string(b: &bool) -> (r: String) ensures r@ == spec_bool_text(*b) { unimplemented!() }
    #[verifier::external_body]
    pub fn int_to_string(v: &i64) -> (r: String) ensures r@ == spec_int_text(*v) { unimplemented!() }
    #[verifier::external_body]
    pub fn float_to_string(v: &f64) -> (r: String) ensures r@ == spec_float_text(*v) { unimplemented!() }
    /// `format!("{e:?}")` of an error cell: a function of the error code
    pub uninterp spec fn spec_error_text(e: CellErrorType) -> Seq<char>;
    #[verifier::external_body]
    pub fn error_to_string(e: &CellErrorType) -> (r: String) ensures r@ == spec_error_text(*e) { unimplemented!() }
}
} // verus!
