verus! {
/// Stand-ins for the office (xlsx) crate, excel.rs (SheetReader), regex and path handling used by questrade.rs.
/// A sheet is a list of rows; what a cell contains is an uninterpreted function of (row, column name).
pub mod xl {
    use vstd::prelude::*;
    use crate::rust_decimal::Decimal;
    use crate::peripheral::sheet_common::SheetParseError;
    #[verifier::external_body]
    pub struct Range { x: u8 }
    #[verifier::external_body]
    pub struct Row { x: u8 }
    #[verifier::external_body]
    pub struct Rows { x: u8 }
    pub uninterp spec fn sheet_rows(r: &Range) -> Seq<Row>;
    /// text of the cell under header `name` in `row` (None: no such column)
    pub uninterp spec fn cell_str(row: Row, name: Seq<char>) -> Option<Seq<char>>;
    /// number in the cell under header `name` (None: no such column / not a number / empty)
    pub uninterp spec fn cell_dec(row: Row, name: Seq<char>) -> Option<real>;
    impl Range {
        #[verifier::external_body]
        pub fn rows(&self) -> Rows { unimplemented!() }
    }
    /// H: `for row in sheet.rows()` -- the rows of the sheet, in order, header row first
    #[verifier::external_body]
    pub fn rows_vec(r: &Range) -> (v: Vec<Row>) ensures v@ == sheet_rows(r) { unimplemented!() }
    pub struct SheetReader { pub row: Ghost<Option<Row>>, pub row_num: Ghost<int> }
    impl SheetReader {
        /// A (excel.rs read_sheet_header, not verified): the header row gives the column of every name
        #[verifier::external_body]
        pub fn new(rows: &mut Rows) -> (r: Result<SheetReader, SheetParseError>) ensures r is Ok ==> r->Ok_0.row@ is None { unimplemented!() }
        #[verifier::external_body]
        pub fn set_row(&mut self, r: Row, row_num: usize)
            requires row_num > 0
            ensures final(self).row@ == Some(r), final(self).row_num@ == row_num as int
        { unimplemented!() }
        /// A (excel.rs get / get_str, not verified): the text found under the named header of the current row
        #[verifier::external_body]
        pub fn get_str(&self, name: &str) -> (r: Result<String, SheetParseError>)
            requires self.row@ is Some
            ensures r is Ok <==> cell_str(self.row@->Some_0, name@) is Some, r is Ok ==> r->Ok_0@ == cell_str(self.row@->Some_0, name@)->Some_0
        { unimplemented!() }
        #[verifier::external_body]
        pub fn get_dec(&self, name: &str) -> (r: Result<Decimal, SheetParseError>)
            requires self.row@ is Some
            ensures r is Ok <==> cell_dec(self.row@->Some_0, name@) is Some, r is Ok ==> r->Ok_0@ == cell_dec(self.row@->Some_0, name@)->Some_0
        { unimplemented!() }
    }
    pub uninterp spec fn spec_upper(s: Seq<char>) -> Seq<char>;
    #[verifier::external_body]
    pub fn to_upper(s: &String) -> (r: String) ensures r@ == spec_upper(s@) { unimplemented!() }
    /// `rrsp|tfsa|resp`, case-insensitive, anywhere in the account type
    pub uninterp spec fn spec_registered_type(s: Seq<char>) -> bool;
    #[verifier::external_body]
    pub fn is_registered_account_type(s: &String) -> (r: bool) ensures r == spec_registered_type(s@) { unimplemented!() }
    /// `a == b` on strings (String == &str, and string-literal match arms)
    #[verifier::external_body]
    pub fn str_eq(a: &str, b: &str) -> (r: bool) ensures r == (a@ == b@) { unimplemented!() }
    /// a finite set of string constants
    pub struct StrSet { pub s: Ghost<Set<Seq<char>>> }
    impl StrSet {
        #[verifier::external_body]
        pub fn contains(&self, x: &str) -> (r: bool) ensures r == self.s@.contains(x@) { unimplemented!() }
    }
    /// stand-in for std::path::Path
    #[verifier::external_body]
    pub struct Path { x: u8 }
    #[verifier::external_body]
    pub fn path_string(p: Option<&Path>) -> Option<String> { unimplemented!() }
}
} // verus!
