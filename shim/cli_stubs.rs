verus! {
/// Stand-ins for what cmd.rs constructs besides the verified modules: the on-disk rates cache and the JSON remote loader
/// (behind their trait contracts, which unit fx assumes of every implementor), the home directory, the process exit code.
pub mod cli {
    use vstd::prelude::*;
    use crate::fx::io::{RatesCache, RemoteRateLoader, RateLoadResult, Error};
    use crate::fx::DailyRate;
    use crate::util::basic::SError;
    use crate::util::rw::WriteHandle;
    pub struct ExitCode(pub u8);
    impl ExitCode { pub const FAILURE: ExitCode = ExitCode(1); }
    #[verifier::external_body]
    pub struct HomeDir { x: u8 }
    /// `crate::util::os::home_dir_path()`
    #[verifier::external_body]
    pub fn home_dir_path() -> Result<HomeDir, String> { unimplemented!() }
    /// stand-in for CsvRatesCache (files under ~/.acb): what it holds is uninterpreted
    #[verifier::external_body]
    pub struct DiskCache { x: u8 }
    impl RatesCache for DiskCache {
        uninterp spec fn content(&self) -> Map<u32, Seq<DailyRate>>;
        #[verifier::external_body]
        fn write_rates(&mut self, year: u32, rates: &Vec<DailyRate>) -> (r: Result<(), SError>) { unimplemented!() }
        #[verifier::external_body]
        fn get_usd_cad_rates(&mut self, year: u32) -> (r: Result<Option<Vec<DailyRate>>, SError>) { unimplemented!() }
    }
    /// `Box::new(CsvRatesCache::new(home_dir, err_printer))`
    #[verifier::external_body]
    pub fn csv_rates_cache(home: HomeDir, w: WriteHandle) -> Box<dyn RatesCache> { unimplemented!() }
    /// stand-in for JsonRemoteRateLoader over the stand-alone HTTP requester
    #[verifier::external_body]
    pub struct BankLoader { x: u8 }
    impl RemoteRateLoader for BankLoader {
        #[verifier::external_body]
        fn get_remote_usd_cad_rates(&self, year: u32) -> (r: Result<RateLoadResult, Error>) { unimplemented!() }
    }
    /// `JsonRemoteRateLoader::new_boxed(StandaloneAppRequester::new_boxed())`
    #[verifier::external_body]
    pub fn json_remote_loader() -> Box<dyn RemoteRateLoader> { unimplemented!() }
}
} // verus!
