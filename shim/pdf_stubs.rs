verus! {
pub mod util { pub mod basic { pub type SError = String; } }
/// stand-in for the lopdf crate's document type (opaque)
pub mod lopdf { use vstd::prelude::*; #[verifier::external_body] pub struct Document { x: u8 } }
} // verus!
