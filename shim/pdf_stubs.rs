verus! {
pub mod util { pub mod basic { pub type SError = String; } }
/// stand-in for the lopdf crate's document type (opaque)
pub mod lopdf { use vstd::prelude::*; #[verifier::external_body] pub struct Document { x: u8 } }
pub mod pdfx { use vstd::prelude::*; /// stand-in for pdf_extract::OutputError
#[verifier::external_body] pub struct ExtractErr { x: u8 }
impl ExtractErr { #[verifier::external_body] pub fn to_string(&self) -> String { unimplemented!() } } }
} // verus!
