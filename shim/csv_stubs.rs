verus! {
/// Stand-ins for the csv crate, `str` helpers and `&'static str` hash keys used by portfolio/io/tx_csv.rs. ASSUMED.
/// What a file contains is an uninterpreted function of its reader: the header fields and, per record, its fields
/// (None = the csv crate reports a read error there).
pub mod csvx {
    use vstd::prelude::*;
    use crate::util::rw_reader::DescribedReader;
    pub uninterp spec fn spec_header(dr: &DescribedReader) -> Option<Seq<Seq<char>>>;
    pub uninterp spec fn spec_records(dr: &DescribedReader) -> Seq<Option<Seq<Seq<char>>>>;
    #[verifier::external_body]
    pub struct StringRecord { x: u8 }
    impl StringRecord { pub uninterp spec fn fields(&self) -> Seq<Seq<char>>; }
    #[verifier::external_body]
    pub struct CsvError { x: u8 }
    #[verifier::external_body]
    pub struct Reader { x: u8 }
    impl Reader {
        pub uninterp spec fn header(&self) -> Option<Seq<Seq<char>>>;
        pub uninterp spec fn records(&self) -> Seq<Option<Seq<Seq<char>>>>;
        /// `csv::Reader::headers()`
        #[verifier::external_body]
        pub fn headers(&mut self) -> (r: Result<&StringRecord, CsvError>)
            ensures final(self).header() == old(self).header(), final(self).records() == old(self).records(),
                r is Ok <==> old(self).header() is Some, r is Ok ==> r->Ok_0.fields() == old(self).header()->Some_0
        { unimplemented!() }
    }
    /// H: `desc_reader.reader()` + `csv::ReaderBuilder::new().has_headers(true).from_reader(reader)`; Err = the source cannot be opened
    #[verifier::external_body]
    pub fn open_csv(dr: &mut DescribedReader) -> (r: Result<Reader, String>)
        ensures *final(dr) == *old(dr), r is Ok ==> r->Ok_0.header() == spec_header(old(dr)) && r->Ok_0.records() == spec_records(old(dr))
    { unimplemented!() }
    /// H: `csv_r.records()` -- all records of the file, in order (read ahead of the loop instead of lazily)
    #[verifier::external_body]
    pub fn records_vec(r: &mut Reader) -> (v: Vec<Result<StringRecord, CsvError>>)
        ensures v@.len() == old(r).records().len(),
            forall|i: int| 0 <= i < v@.len() ==> ((#[trigger] v@[i]) is Ok <==> old(r).records()[i] is Some)
                && (v@[i] is Ok ==> v@[i]->Ok_0.fields() == old(r).records()[i]->Some_0)
    { unimplemented!() }
    /// H: `record.iter()` / `headers.iter()` -- the fields of a record, in order
    #[verifier::external_body]
    pub fn fields_vec<'a>(rec: &'a StringRecord) -> (v: Vec<&'a str>)
        ensures v@.len() == rec.fields().len(), v@.len() <= usize::MAX, forall|i: int| 0 <= i < v@.len() ==> (#[trigger] v@[i])@ == rec.fields()[i]
    { unimplemented!() }

    // ---- str helpers: uninterpreted functions of the text
    pub uninterp spec fn spec_trim(s: Seq<char>) -> Seq<char>;
    pub uninterp spec fn spec_lower(s: Seq<char>) -> Seq<char>;
    #[verifier::external_body]
    pub fn trim<'a>(s: &'a str) -> (r: &'a str) ensures r@ == spec_trim(s@) { unimplemented!() }
    #[verifier::external_body]
    pub fn to_lower(s: &str) -> (r: String) ensures r@ == spec_lower(s@) { unimplemented!() }
    #[verifier::external_body]
    pub fn str_is_empty(s: &str) -> (r: bool) ensures r == (s@.len() == 0) { unimplemented!() }
    #[verifier::external_body]
    pub fn to_string(s: &str) -> (r: String) ensures r@ == s@ { unimplemented!() }
    #[verifier::external_body]
    pub fn str_eq(a: &str, b: &str) -> (r: bool) ensures r == (a@ == b@) { unimplemented!() }
    /// `value.ends_with("!")`
    #[verifier::external_body]
    pub fn ends_with_bang(s: &str) -> (r: bool) ensures r == (s@.len() > 0 && s@.last() == '!') { unimplemented!() }
    /// `&value[..value.len() - 1]` after `ends_with("!")`: the one-byte mark is cut off (a char boundary)
    #[verifier::external_body]
    pub fn drop_last<'a>(s: &'a str) -> (r: &'a str) requires s@.len() > 0 && s@.last() == '!' ensures r@ == s@.drop_last() { unimplemented!() }

    /// H: `format!("{}{}", text, if force { "!" } else { "" })`
    #[verifier::external_body]
    pub fn with_mark(t: String, force: bool) -> (r: String) ensures r@ == (if force { t@.push('!') } else { t@ }) { unimplemented!() }
    // ---- Display texts (the `impl Display` blocks are outside the verified dialect, R6): functions of the value
    pub uninterp spec fn spec_action_text(a: crate::portfolio::TxAction) -> Seq<char>;
    pub uninterp spec fn spec_currency_text(code: Seq<char>) -> Seq<char>;
    pub uninterp spec fn spec_split_text(r: crate::portfolio::SplitRatio) -> Seq<char>;
    impl crate::portfolio::TxAction {
        #[verifier::external_body]
        pub fn to_string(&self) -> (r: String) ensures r@ == spec_action_text(*self) { unimplemented!() }
    }
    impl crate::portfolio::Currency {
        #[verifier::external_body]
        pub fn to_string(&self) -> (r: String) ensures r@ == spec_currency_text(self.spec_code()) { unimplemented!() }
    }
    impl crate::portfolio::SplitRatio {
        #[verifier::external_body]
        pub fn to_string(&self) -> (r: String) ensures r@ == spec_split_text(*self) { unimplemented!() }
    }
    // ---- the table of column names: HashSet<&'static str> looked up by &str
    pub uninterp spec fn is_col(s: Seq<char>) -> bool;
    #[verifier::external_body]
    pub struct ColSet { x: u8 }
    impl ColSet {
        /// `HashSet::<&'static str>::get(&str)`: the table's own constant with that text
        #[verifier::external_body]
        pub fn get(&self, s: &str) -> (r: Option<&&'static str>)
            ensures r is Some <==> is_col(s@), r is Some ==> (**(r->Some_0))@ == s@
        { unimplemented!() }
    }
    /// H: `CsvCol::get_csv_cols()` -- the sixteen column names
    #[verifier::external_body]
    pub fn csv_cols() -> ColSet { unimplemented!() }
    // ---- `&'static str` hash keys looked up by `&str` (Borrow<str>): vstd states these facts only for K == Q and Box<Q>
    pub broadcast axiom fn axiom_str_key_model() ensures #[trigger] vstd::std_specs::hash::obeys_key_model::<&'static str>();
    pub broadcast axiom fn axiom_str_ext(a: &'static str, b: &'static str) ensures #[trigger] a@ == #[trigger] b@ ==> a == b;
    // (a `&'static str` is its text -- axiom_str_ext -- so "the key that borrows to k" is k itself)
    pub broadcast axiom fn axiom_contains_str<V>(m: Map<&'static str, V>, k: &'static str)
        ensures #[trigger] vstd::std_specs::hash::contains_borrowed_key::<&'static str, V, str>(m, k) <==> m.contains_key(k);
    pub broadcast axiom fn axiom_maps_str<V>(m: Map<&'static str, V>, k: &'static str, v: V)
        ensures #[trigger] vstd::std_specs::hash::maps_borrowed_key_to_value::<&'static str, V, str>(m, k, v) <==> m.contains_key(k) && m[k] == v;
    pub broadcast axiom fn axiom_removed_str<V>(m: Map<&'static str, V>, m2: Map<&'static str, V>, k: &'static str)
        ensures #[trigger] vstd::std_specs::hash::borrowed_key_removed::<&'static str, V, str>(m, m2, k) <==> m2 == m.remove(k);
    pub broadcast axiom fn axiom_set_contains_str(m: Set<&'static str>, k: &'static str)
        ensures #[trigger] vstd::std_specs::hash::set_contains_borrowed_key::<&'static str, str>(m, k) <==> m.contains(k);
    pub broadcast group group_str_keys { axiom_str_key_model, axiom_str_ext, axiom_contains_str, axiom_maps_str, axiom_removed_str, axiom_set_contains_str }
}
} // verus!
