verus! {
/// Stand-in for the csv crate's writer as used by app/outfmt/csv.rs: what has been written is a ghost list of records.
pub mod csvw {
    use vstd::prelude::*;
    #[verifier::external_body]
    pub struct CsvErr { x: u8 }
    impl CsvErr { #[verifier::external_body] pub fn to_string(&self) -> String { unimplemented!() } }
    /// the sink a writer was opened on (a file in the output directory, or the handle given at construction)
    #[verifier::external_body]
    pub struct Sink { x: u8 }
    /// `WriteHandle::stdout_write_handle()` as the sink of a csv writer
    #[verifier::external_body]
    pub fn stdout_sink() -> Sink { unimplemented!() }
    pub struct Writer { pub recs: Ghost<Seq<Seq<Seq<char>>>> }
    /// ghost account of one call of a table writer: the records that the writer it opened has received when the call ends
    pub tracked struct WLog { pub ghost recs: Seq<Seq<Seq<char>>> }
    pub open spec fn texts(v: Seq<String>) -> Seq<Seq<char>> { Seq::new(v.len(), |i: int| v[i]@) }
    /// a record given by reference or by value
    pub trait Record { spec fn rec(&self) -> Seq<Seq<char>>; }
    impl<'a> Record for &'a Vec<String> { open spec fn rec(&self) -> Seq<Seq<char>> { texts((*self)@) } }
    impl<'a> Record for &'a Vec<&'static str> { open spec fn rec(&self) -> Seq<Seq<char>> { Seq::new((*self)@.len(), |i: int| (*self)@[i]@) } }
    impl Record for Vec<String> { open spec fn rec(&self) -> Seq<Seq<char>> { texts(self@) } }
    /// H: `csv::WriterBuilder::new().has_headers(true).from_writer(writer)`
    #[verifier::external_body]
    pub fn writer_from(w: Sink) -> (r: Writer) ensures r.recs@.len() == 0 { unimplemented!() }
    /// H: the same builder call on a borrowed `&mut dyn Write`
    #[verifier::external_body]
    pub fn writer_from_dyn(w: &mut Sink) -> (r: Writer) ensures r.recs@.len() == 0 { unimplemented!() }
    impl Writer {
        #[verifier::external_body]
        pub fn write_record<R: Record>(&mut self, r: R) -> (res: Result<(), CsvErr>)
            ensures res is Ok ==> final(self).recs@ == old(self).recs@.push(r.rec()), res is Err ==> final(self).recs@ == old(self).recs@
        { unimplemented!() }
        #[verifier::external_body]
        pub fn flush(&mut self) -> (res: Result<(), CsvErr>) ensures final(self).recs@ == old(self).recs@ { unimplemented!() }
    }
    /// `format!("[!] {err}")`
    pub open spec fn spec_err_text(e: Seq<char>) -> Seq<char> { "[!] "@ + e }
    #[verifier::external_body]
    pub fn err_text(e: &String) -> (r: String) ensures r@ == spec_err_text(e@) { unimplemented!() }
    /// `Vec::resize(n, String::new())` on a fresh empty vector: n empty strings
    #[verifier::external_body]
    pub fn resize_empty(v: &mut Vec<String>, n: usize)
        requires old(v)@.len() == 0
        ensures final(v)@.len() == n, forall|i: int| 0 <= i < n ==> (#[trigger] final(v)@[i])@.len() == 0
    { unimplemented!() }
}
} // verus!
