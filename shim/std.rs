verus! {
/// Trusted contracts for std items that vstd does not specify (or specifies too weakly). Nothing here is proved.
pub mod stdx {
    use vstd::prelude::*;
    use std::collections::{HashMap, HashSet};
    use std::alloc::Allocator;
    use std::hash::{Hash, BuildHasher};
    use std::borrow::Borrow;

    pub broadcast proof fn axiom_string_key_model()
        ensures #[trigger] vstd::std_specs::hash::obeys_key_model::<String>()
    { admit(); }
    pub broadcast proof fn axiom_string_view_injective(a: String, b: String)
        ensures #[trigger] a@ == #[trigger] b@ ==> a == b
    { admit(); }
    pub broadcast proof fn axiom_i32_key_model()
        ensures #[trigger] vstd::std_specs::hash::obeys_key_model::<i32>()
    { admit(); }
    pub broadcast proof fn axiom_u32_key_model()
        ensures #[trigger] vstd::std_specs::hash::obeys_key_model::<u32>()
    { admit(); }

    /// the entry handed out by get_mut is the one whose key borrows to `k`
    pub uninterp spec fn key_matches<K, Q: ?Sized>(key: K, k: &Q) -> bool;
    pub broadcast proof fn axiom_key_matches_same<K>(key: K, k: &K)
        ensures #[trigger] key_matches::<K, K>(key, k) <==> key == *k
    { admit(); }
    pub assume_specification<'a, K, V, S, A, Q> [ HashMap::<K, V, S, A>::get_mut ] (m: &'a mut HashMap<K, V, S, A>, k: &Q) -> (r: Option<&'a mut V>)
        where K: Borrow<Q> + Eq + Hash, Q: Hash + Eq + ?Sized, S: BuildHasher, A: Allocator
        ensures
            vstd::std_specs::hash::obeys_key_model::<K>() && vstd::std_specs::hash::builds_valid_hashers::<S>() ==> (
              match r {
                Some(v) => vstd::std_specs::hash::contains_borrowed_key(old(m)@, k)
                    && vstd::std_specs::hash::maps_borrowed_key_to_value(old(m)@, k, *v)
                    && (exists|key: K| #[trigger] old(m)@.contains_key(key) && old(m)@[key] == *v && key_matches(key, k)
                            && vstd::std_specs::hash::maps_borrowed_key_to_value(old(m)@, k, old(m)@[key])
                            && final(m)@ == old(m)@.insert(key, *final(v))),
                None => !vstd::std_specs::hash::contains_borrowed_key(old(m)@, k) && final(m)@ == old(m)@,
              });
    pub assume_specification<T: Ord> [ <[T]>::sort ] (s: &mut [T])
        ensures final(s)@.to_multiset() == old(s)@.to_multiset(),
                final(s)@.len() == old(s)@.len(),
                forall|x: T| #[trigger] final(s)@.contains(x) <==> old(s)@.contains(x),
                old(s)@.no_duplicates() ==> final(s)@.no_duplicates(),
                forall|i: int, j: int| #![trigger final(s)@[i], final(s)@[j]] 0 <= i < j < final(s)@.len() ==> vstd::std_specs::cmp::OrdSpec::cmp_spec(&final(s)@[i], &final(s)@[j]) != std::cmp::Ordering::Greater;
    pub assume_specification<T, F: FnOnce() -> Option<T>> [ Option::<T>::or_else ] (o: Option<T>, f: F) -> (r: Option<T>)
        requires o is None ==> f.requires(()),
        ensures o is Some ==> r == o, o is None ==> f.ensures((), r);

    /// lexicographic byte order of strings: only totality-free facts are used (antisymmetry)
    pub uninterp spec fn str_ord(a: Seq<char>, b: Seq<char>) -> std::cmp::Ordering;
    pub broadcast proof fn axiom_str_ord_antisym(a: Seq<char>, b: Seq<char>)
        ensures (#[trigger] str_ord(a, b) != std::cmp::Ordering::Greater && #[trigger] str_ord(b, a) != std::cmp::Ordering::Greater) ==> a == b
    { admit(); }
    pub assume_specification [ <str as Ord>::cmp ] (a: &str, b: &str) -> (r: std::cmp::Ordering)
        ensures r == str_ord(a@, b@);
    pub assume_specification [ <String as Ord>::cmp ] (a: &String, b: &String) -> (r: std::cmp::Ordering)
        ensures r == str_ord(a@, b@);
    pub assume_specification<T, F: FnMut(&T, &T) -> std::cmp::Ordering> [ <[T]>::sort_by ] (s: &mut [T], f: F)
        ensures final(s)@.to_multiset() == old(s)@.to_multiset(),
                final(s)@.len() == old(s)@.len(),
                forall|x: T| #[trigger] final(s)@.contains(x) <==> old(s)@.contains(x),
                old(s)@.no_duplicates() ==> final(s)@.no_duplicates(),
                forall|i: int, j: int| #![trigger final(s)@[i], final(s)@[j]] 0 <= i < j < final(s)@.len() ==> exists|o: std::cmp::Ordering| #[trigger] f.ensures((&final(s)@[i], &final(s)@[j]), o) && o != std::cmp::Ordering::Greater;

    pub assume_specification<T, A: Allocator> [ std::collections::VecDeque::<T, A>::is_empty ] (v: &std::collections::VecDeque<T, A>) -> (r: bool)
        ensures r == (v@.len() == 0);

    // the rest of the slice sort family, so that changed code that calls it still resolves: permutation + order by the
    // key / comparator; nothing is promised about the relative order of equal elements beyond what std documents
    pub assume_specification<T, K: Ord, F: FnMut(&T) -> K> [ <[T]>::sort_by_key ] (s: &mut [T], f: F)
        ensures final(s)@.to_multiset() == old(s)@.to_multiset(),
                final(s)@.len() == old(s)@.len(),
                forall|x: T| #[trigger] final(s)@.contains(x) <==> old(s)@.contains(x),
                forall|i: int, j: int| #![trigger final(s)@[i], final(s)@[j]] 0 <= i < j < final(s)@.len() ==> exists|k1: K, k2: K| #[trigger] f.ensures((&final(s)@[i],), k1) && #[trigger] f.ensures((&final(s)@[j],), k2) && vstd::std_specs::cmp::OrdSpec::cmp_spec(&k1, &k2) != std::cmp::Ordering::Greater;
    pub assume_specification<T: Ord> [ <[T]>::sort_unstable ] (s: &mut [T])
        ensures final(s)@.to_multiset() == old(s)@.to_multiset(),
                final(s)@.len() == old(s)@.len(),
                forall|x: T| #[trigger] final(s)@.contains(x) <==> old(s)@.contains(x),
                forall|i: int, j: int| #![trigger final(s)@[i], final(s)@[j]] 0 <= i < j < final(s)@.len() ==> vstd::std_specs::cmp::OrdSpec::cmp_spec(&final(s)@[i], &final(s)@[j]) != std::cmp::Ordering::Greater;
    pub assume_specification<T, F: FnMut(&T, &T) -> std::cmp::Ordering> [ <[T]>::sort_unstable_by ] (s: &mut [T], f: F)
        ensures final(s)@.to_multiset() == old(s)@.to_multiset(),
                final(s)@.len() == old(s)@.len(),
                forall|x: T| #[trigger] final(s)@.contains(x) <==> old(s)@.contains(x),
                forall|i: int, j: int| #![trigger final(s)@[i], final(s)@[j]] 0 <= i < j < final(s)@.len() ==> exists|o: std::cmp::Ordering| #[trigger] f.ensures((&final(s)@[i], &final(s)@[j]), o) && o != std::cmp::Ordering::Greater;
    pub assume_specification<T> [ <[T]>::reverse ] (s: &mut [T])
        ensures final(s)@ == old(s)@.reverse();

    pub assume_specification [ <str as PartialOrd>::partial_cmp ] (a: &str, b: &str) -> (r: Option<std::cmp::Ordering>)
        ensures r == Some(str_ord(a@, b@));

    /// `slice.contains(&x)` for element types whose `==` is equality of values (stated per type by a PartialEqSpecImpl with obeys_eq_spec)
    pub assume_specification<T: PartialEq> [ <[T]>::contains ] (s: &[T], x: &T) -> (r: bool)
        ensures <T as vstd::std_specs::cmp::PartialEqSpec>::obeys_eq_spec() ==> r == s@.contains(*x);
}
} // verus!
