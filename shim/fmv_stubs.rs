verus! {
pub mod util { pub mod basic { pub type SError = String; } pub mod decimal {
    use vstd::prelude::*;
    use crate::rust_decimal::Decimal;
    /// what the text of a number with thousands separators denotes (None: not a number) -- uninterpreted
    pub uninterp spec fn spec_parse_large(s: Seq<char>) -> Option<real>;
    /// A (string code, rust_decimal parser): parse_large_decimal is a function of the text
    #[verifier::external_body]
    pub fn parse_large_decimal(s: &str) -> (r: Result<Decimal, crate::rex::DecErr>)
        ensures r is Ok <==> spec_parse_large(s@) is Some, r is Ok ==> r->Ok_0@ == spec_parse_large(s@)->Some_0
    { unimplemented!() }
} }
/// Stand-ins for the regex crate and the `str` methods used by the statement parser.  The three regular expressions of
/// `lazy_static!` become three identifiers; what a pattern matches and what its groups capture are uninterpreted functions of
/// the text (the verifier knows nothing about them except that they are functions).
pub mod rex {
    use vstd::prelude::*;
    #[allow(non_camel_case_types)]
    pub enum ReId { SEC_FIRST_ROW_RE, SEC_DATA_RE, TOTAL_ROW_RE, CURRENT_MONTH_RE, FMV_PAGE_MARKER }
    pub uninterp spec fn re_match(id: ReId, s: Seq<char>) -> bool;
    pub uninterp spec fn re_group(id: ReId, s: Seq<char>, g: int) -> Seq<char>;
    pub uninterp spec fn spec_trim(s: Seq<char>) -> Seq<char>;
    pub uninterp spec fn spec_contains(s: Seq<char>, pat: Seq<char>) -> bool;
    pub uninterp spec fn spec_lines(s: Seq<char>) -> Seq<Seq<char>>;
    #[verifier::external_body]
    pub struct DecErr { x: u8 }
    impl DecErr { #[verifier::external_body] pub fn to_string(&self) -> String { unimplemented!() } }
    pub struct Caps<'a> { pub id: Ghost<ReId>, pub text: &'a str }
    pub struct Mat<'a> { pub s: &'a str }
    #[verifier::external_body]
    pub fn is_match(id: ReId, s: &str) -> (r: bool) ensures r == re_match(id, s@) { unimplemented!() }
    #[verifier::external_body]
    pub fn captures<'a>(id: ReId, s: &'a str) -> (r: Option<Caps<'a>>)
        ensures r is Some <==> re_match(id, s@), r is Some ==> r->Some_0.id@ == id && r->Some_0.text@ == s@
    { unimplemented!() }
    impl<'a> Caps<'a> {
        /// A (regex semantics): group 1 of SEC_FIRST_ROW_RE and of TOTAL_ROW_RE takes part in every match
        #[verifier::external_body]
        pub fn get(&self, g: usize) -> (r: Option<Mat<'a>>)
            ensures g == 1 && !(self.id@ is SEC_DATA_RE) ==> r is Some, r is Some ==> r->Some_0.s@ == re_group(self.id@, self.text@, g as int)
        { unimplemented!() }
    }
    impl<'a> Mat<'a> { pub fn as_str(&self) -> (r: &'a str) ensures r@ == self.s@ { self.s } }
    #[verifier::external_body]
    pub fn str_contains(s: &str, pat: &str) -> (r: bool) ensures r == spec_contains(s@, pat@) { unimplemented!() }
    /// H: `page.lines()` collected
    #[verifier::external_body]
    pub fn lines<'a>(s: &'a str) -> (r: Vec<&'a str>) ensures r@.len() == spec_lines(s@).len(), forall|i: int| 0 <= i < r@.len() ==> (#[trigger] r@[i])@ == spec_lines(s@)[i] { unimplemented!() }
    #[verifier::external_body]
    pub fn trim<'a>(s: &'a str) -> (r: &'a str) ensures r@ == spec_trim(s@) { unimplemented!() }
    #[verifier::external_body]
    pub fn str_is_empty(s: &str) -> (r: bool) ensures r == (s@.len() == 0) { unimplemented!() }
    #[verifier::external_body]
    pub fn to_string(s: &str) -> (r: String) ensures r@ == s@ { unimplemented!() }
    // ---- parse_statement_text: the "Current month: <month> <day>, <year>" line
    /// the date a matching month line denotes (None: month name / numbers not readable, or no such calendar date); a function of the page text
    pub uninterp spec fn spec_month_line(page: Seq<char>) -> Option<Result<int, ()>>;
    /// H: the body of `if let Some(m) = current_month_re.captures(page)`: month name, `parse::<i32>()`, `parse::<u8>()`, `Date::from_calendar_date`
    /// -- Ok(None): the month name is not one (the line is ignored), Err: a number or the date is not valid (the statement is refused)
    #[verifier::external_body]
    pub fn month_line_date(m: &Caps) -> (r: Result<Option<crate::time::Date>, String>)
        requires m.id@ is CURRENT_MONTH_RE
        ensures match spec_month_line(m.text@) { None => r == Ok::<Option<crate::time::Date>, String>(None), Some(Ok(d)) => r is Ok && r->Ok_0 is Some && r->Ok_0->Some_0@ == d, Some(Err(_)) => r is Err }
    { unimplemented!() }
    /// H: `desc += format!(" {}", t).as_str()`
    #[verifier::external_body]
    pub fn append_line(desc: &mut String, t: &str) ensures final(desc)@ == old(desc)@ + seq![' '] + t@ { unimplemented!() }
}
} // verus!
