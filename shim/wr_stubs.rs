verus! {
/// Stand-in for the two table writers (app/outfmt/{text,csv}.rs): constructors only; what a writer does with a table is the
/// ghost log of the AcbWriter contract. ASSUMED.
pub mod wrx {
    use vstd::prelude::*;
    use crate::app::outfmt::model::{AcbWriter, OutputType, Printed};
    use crate::util::rw::WriteHandle;
    /// stand-in for TextWriter / CsvWriter (app/outfmt/{text,csv}.rs)
    pub struct TableWriter { pub log: Ghost<Seq<Printed>>, pub pretty: bool }
    impl AcbWriter for TableWriter {
        open spec fn printed(&self) -> Seq<Printed> { self.log@ }
        #[verifier::external_body]
        fn print_render_table(&mut self, out_type: OutputType, name: &str, table_model: &crate::portfolio::render::RenderTable) -> (r: Result<(), crate::app::outfmt::model::Error>)
        { unimplemented!() }
    }
    /// `TextWriter::new(out_w)`
    #[verifier::external_body]
    pub fn text_writer(w: WriteHandle) -> (r: TableWriter) ensures r.log@.len() == 0, r.pretty { unimplemented!() }
    /// `CsvWriter::new_to_writer(out_w)`
    #[verifier::external_body]
    pub fn csv_writer(w: WriteHandle) -> (r: TableWriter) ensures r.log@.len() == 0, !r.pretty { unimplemented!() }
    /// `CsvWriter::new_to_output_dir(dir)`
    #[verifier::external_body]
    pub struct IoErr { x: u8 }
    #[verifier::external_body]
    pub fn csv_dir_writer(dir: &String) -> (r: Result<TableWriter, IoErr>) ensures r is Ok ==> r->Ok_0.log@.len() == 0 && !r->Ok_0.pretty { unimplemented!() }
}
} // verus!
