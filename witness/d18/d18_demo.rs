// Demonstration for defect D18: a page-hint group in descending order makes the lazy page cache shrink
// (Vec::resize to a smaller length) and the iterator index out of bounds.
#![cfg(feature = "pdf_parse")]
use lopdf::{dictionary, Document, Object, Stream};
use lopdf::content::{Content, Operation};
use std::sync::Arc;

fn two_page_doc() -> Document {
    let mut doc = Document::with_version("1.5");
    let pages_id = doc.new_object_id();
    let font_id = doc.add_object(dictionary! { "Type" => "Font", "Subtype" => "Type1", "BaseFont" => "Courier" });
    let resources_id = doc.add_object(dictionary! { "Font" => dictionary! { "F1" => font_id } });
    let mut kids = Vec::new();
    for n in 1..=2 {
        let content = Content { operations: vec![
            Operation::new("BT", vec![]),
            Operation::new("Tf", vec!["F1".into(), 12.into()]),
            Operation::new("Td", vec![100.into(), 600.into()]),
            Operation::new("Tj", vec![Object::string_literal(format!("page {n}"))]),
            Operation::new("ET", vec![]),
        ] };
        let content_id = doc.add_object(Stream::new(dictionary! {}, content.encode().unwrap()));
        let page_id = doc.add_object(dictionary! { "Type" => "Page", "Parent" => pages_id, "Contents" => content_id });
        kids.push(page_id.into());
    }
    doc.objects.insert(pages_id, Object::Dictionary(dictionary! {
        "Type" => "Pages", "Kids" => kids, "Count" => 2, "Resources" => resources_id,
        "MediaBox" => vec![0.into(), 0.into(), 595.into(), 842.into()],
    }));
    let catalog_id = doc.add_object(dictionary! { "Type" => "Catalog", "Pages" => pages_id });
    doc.trailer.set("Root", catalog_id);
    doc
}

#[test]
fn descending_hint_group_yields_both_pages() {
    let doc = two_page_doc();
    let groups = acb::peripheral::pdf::LazyPageTextVec::safe_page_chunks_with_remainder(&doc, &vec![vec![2, 1]]);
    assert_eq!(groups, vec![vec![2, 1]]);
    let mut lazy = acb::peripheral::pdf::LazyPageTextVec::new(Arc::new(doc), false);
    let pages: Vec<u32> = lazy.optimized_iter(groups).map(|(n, _)| n).collect();
    assert_eq!(pages, vec![2, 1]);
}
