"""unit smd: run_acb_app_summary_to_model of app/approot.rs (summary mode: ledgers -> make_aggregate_summary_txs) together with
run_acb_app_to_delta_models (unit drv) and portfolio/summary.rs (unit summary), whose contracts it uses"""
import os
from vx.build import Src, mod, shim
import units.bk as bk
import units.fx as fxu
import units.drv as drvu
import units.summary as sumu

NAME = 'smd'
OVERLAYS = ['bk', 'fx', 'ord', 'drv', 'summary', 'smd']
VERUS_FLAGS = ['--no-lifetime']
VERIFY_MODULES = ['app::approot']


def build(ctx):
    p = bk.parts(ctx)
    f = fxu.fx_parts(ctx)
    import units.ord as ordu
    o = ordu.ord_parts(ctx)
    ar = drvu.approot_src(ctx, ['type Error', 'struct Options', 'fn run_acb_app_to_delta_models', 'struct AppSummaryError', 'fn run_acb_app_summary_to_model', 'fn run_acb_app_summary_to_console'])
    ar.sub(r'(?m)^#\[cfg\(not\(target_arch = "wasm32"\)\)\]\n', '', 'select')
    ar.replace('for (sec, e) in err_struct.sec_errors {', 'let __errs = hole_errors_into_vec(err_struct.sec_errors);\n            for (sec, e) in __errs {', 'H')
    ar.replace('for (warning, secs) in summ_data.warnings {', 'let __warns = hole_warnings_into_vec(summ_data.warnings);\n        for (warning, secs) in __warns {', 'H')
    ar.sub(r'(?s)let csv_txs: Vec<crate::portfolio::CsvTx> = summ_data\s*\.txs\s*\.into_iter\(\)', 'let csv_txs: Vec<crate::portfolio::CsvTx> = crate::itx::vec_iter(summ_data.txs)', 'R32', required=True)
    ar.replace('match write_txs_to_csv(&csv_txs, &mut WriteHandle::stdout_write_handle()) {', 'match crate::portfolio::io::tx_csv::write_txs_to_csv(&csv_txs, &mut crate::csvw::stdout_sink()) {', 'R1')

    ar.replace("for (sec, delta_res) in deltas_results_by_sec {", "let __res = hole_results_into_vec(deltas_results_by_sec);\n    for (sec, delta_res) in __res {", 'H')
    app_use = (drvu.APP_USE + "use crate::portfolio::summary::{make_aggregate_summary_txs, CollectedSummaryData};\n")
    app = mod('app', mod('approot', app_use + ar.text()))
    sm = sumu.summary_src(ctx)
    stubs = open(os.path.join(os.path.dirname(os.path.dirname(os.path.abspath(__file__))), 'shim', 'util_stubs.rs')).read()
    head = drvu.with_csv_stubs(shim('base', 'std').replace('verus! {\n/// Trusted contracts for std', fxu.MACROS + 'verus! {\n/// Trusted contracts for std', 1))
    return (head + "verus! {\n"
            + bk.assemble(p, extra_util=stubs,
                          extra_portfolio=mod('io', mod('tx_loader', f['txl']) + drvu.tx_csv_part(ctx)) + o['mods'] + mod('summary', sm.text()),
                          extra_top=f['fx'] + app)
            + "} // verus!\nfn main() {}\n")


def OVERLAY_FILTER(op):
    return not ('mod input_parse' in op['path'])


def OVERLAY_SPLIT(op):
    if 'mod summary' in op['path']:
        return 'summary'
    if 'mod tx_csv' in op['path'] or 'fn run_acb_app_to_delta_models' in op['path'] or op.get('before_item') == 'fn run_acb_app_to_delta_models':
        return 'drv'
    if 'mod app' in op['path']:
        return 'smd'
    return drvu.OVERLAY_SPLIT(op)


TAG_RULES = [
    (r'approot::fn run_acb_app_summary_to_model', ['C10', 'C04']),
    (r'approot::fn run_acb_app_summary_to_console', ['C10']),
    (r'approot::', ['C07', 'C08', 'C16', 'C04']),
    (r'summary::', ['C10']),
] + bk.TAG_RULES
