"""unit ord: portfolio/misc.rs (split_txs_by_security, find_all_non_global_affiliates) and portfolio/splits.rs on the bk base"""
from vx.build import Src, mod, shim
import units.bk as bk

NAME = 'ord'
OVERLAYS = ['bk', 'ord']
VERUS_FLAGS = ['--no-lifetime']
VERIFY_MODULES = ['portfolio::misc', 'portfolio::splits']


def ord_parts(ctx):
    misc = Src(ctx, 'portfolio/misc.rs').cut_tests().standard()
    misc.replace("txs_by_sec.get_mut(&tx.security).unwrap().push(tx);",
                 "let __v = txs_by_sec.get_mut(&tx.security).unwrap();\n        __v.push(tx);", 'R22')
    sp = Src(ctx, 'portfolio/splits.rs').cut_tests().standard()
    sp.enum_loop("for (idx, tx) in sorted_security_txs.iter().enumerate() {",
                 "let mut idx: usize = 0;\n    for tx in sorted_security_txs.iter() {", 'idx')
    sp.replace("find_all_non_global_affiliates(sorted_security_txs).into_iter().collect();",
               "hole_set_to_vec(find_all_non_global_affiliates(sorted_security_txs));", 'H')
    sp.replace("for &idx in split_indices.iter().rev() {", "for __r in split_indices.iter().rev() {\n        let idx = *__r;", 'R8')
    return dict(mods=mod('misc', misc.text()) + mod('splits', sp.text()) + 'pub use self::misc::*;\n')


def build(ctx):
    p = bk.parts(ctx)
    o = ord_parts(ctx)
    return (shim('base', 'std') + "verus! {\n"
            + bk.assemble(p, extra_portfolio=o['mods'])
            + "} // verus!\nfn main() {}\n")


def OVERLAY_SPLIT(op):
    return 'ord' if ('mod misc' in op['path'] or 'mod splits' in op['path']) else 'bk'


TAG_RULES = [
    (r'misc::fn split_txs_by_security', ['C07', 'C08']),
    (r'misc::fn find_all_non_global_affiliates', ['C15', 'C09']),
    (r'splits::', ['C15', 'C09', 'C16']),
] + bk.TAG_RULES
