"""unit bk: the bookkeeping stack (decimal, math, model/*, portfolio_status, delta_list,
superficial_loss, csv_common)."""
from vx.build import Src, mod, shim

NAME = 'bk'
VERUS_FLAGS = ['--no-lifetime']
VERIFY_MODULES = None   # all


def parts(ctx):
    """returns dict of module texts (raw, after the mechanical rewrites)"""
    def load(p):
        return Src(ctx, p).cut_tests().standard()
    dec = load('util/decimal.rs')
    for f, why in (('dollar_precision_str', 'string formatting'), ('to_string_min_precision', 'string formatting'), ('to_string_min_precision', 'string formatting'),
                   ('parse_large_decimal', 'string parsing')):
        dec.ext_fn(f, why=why + ' (kept as an unconstrained assumed function so that calls from verified code still resolve)')
    math = load('util/math.rs')
    aff = load('portfolio/model/affiliate.rs')
    aff.drop_rx(r'(?m)^lazy_static! \{', why='(regex / global dedup table)')
    aff.drop_rx(r'(?m)^impl AffiliateData \{', why='(regex-based from_strep)')
    aff.drop_rx(r'(?m)^pub struct AffiliateDedupTable \{', why='(global table)')
    aff.drop_rx(r'(?m)^impl AffiliateDedupTable \{', why='(global table)')
    aff.ext_fn('from_strep', why='interned affiliate from the global table')
    aff.ext_fn('hash', why='Hash impl; consistency with Eq assumed')
    aff.ext_fn('is_default', why='string comparison of the id')
    aff.strip_derive('Affiliate', 'Clone')
    cur = load('portfolio/model/currency.rs')
    cur.strip_derive('Currency', 'Clone')
    cur.strip_derive('CurrencyAndExchangeRate', 'Clone')
    cur.ext_fn('new', why='string upper-casing')
    tx = load('portfolio/model/tx.rs')
    tx.drop_rx(r'(?m)^impl TryFrom<&str> for TxAction \{', why='(string parsing)')
    tx.ext_fn('parse', why='regex parsing of the split ratio')
    tx.strip_derive('Tx', 'Clone')
    tx.strip_derive('BuyTxSpecifics', 'Clone')
    tx.strip_derive('SFLInput', 'Clone')
    tx.strip_derive('SplitRatio', 'Clone')
    txd = load('portfolio/model/txdelta.rs')
    txd.strip_derive('PortfolioSecurityStatus', 'Clone')
    ps = load('portfolio/bookkeeping/portfolio_status.rs')
    dl = Src(ctx, 'portfolio/bookkeeping/delta_list.rs').cut_after('// MARK: tests').cut_tests().standard()
    dl.drop_fn('unwrap_full_deltas', why='test helper')
    dl.replace("for (new_tx_i, new_tx) in new_txs.into_iter().enumerate() {",
               "let mut new_tx_i: usize = 0; for new_tx in new_txs {", 'R9')
    dl.replace("some_modified_txs.insert(i + new_tx_i + 1, new_tx);",
               "some_modified_txs.insert(i + new_tx_i + 1, new_tx); new_tx_i += 1;", 'R9')
    dl.replace("sfl.acb_adjust_affiliate_ratios.keys().collect();",
               "hole_keys(&sfl.acb_adjust_affiliate_ratios);", 'H')
    dl.replace("&sfl.acb_adjust_affiliate_ratios[af]", "sfl.acb_adjust_affiliate_ratios.get(af).unwrap()", 'R15')
    sl = Src(ctx, 'portfolio/bookkeeping/superficial_loss.rs').cut_after('// MARK: tests').cut_tests().standard()
    sl.replace("for af in &self.buying_affiliates {", "for af in self.buying_affiliates.iter() {", 'R8')
    sl.replace("for af in &sli.buying_affiliates {", "for af in sli.buying_affiliates.iter() {", 'R8')
    sl.replace("pub(super) struct SflRatioResultResult", "pub struct SflRatioResultResult", 'R14')
    cc = load('portfolio/csv_common.rs')
    cc.drop_fn('get_csv_cols', why='column name tables')
    cc.drop_fn('export_order_non_deprecated_cols', why='column name tables')
    return dict(dec=dec.text(), math=math.text(), aff=aff.text(), cur=cur.text(), tx=tx.text(),
                txd=txd.text(), ps=ps.text(), dl=dl.text(), sl=sl.text(), cc=cc.text())


def assemble(p, extra_util='', extra_bookkeeping='', extra_portfolio='', extra_top='', extra_model=''):
    out = []
    out.append(mod('util', mod('basic', 'pub type SError = String;') + mod('decimal', p['dec'])
                   + mod('math', p['math']) + extra_util))
    model = mod('affiliate', p['aff']) + mod('currency', p['cur']) + mod('tx', p['tx']) + mod('txdelta', p['txd']) + extra_model
    bk = (mod('portfolio_status', p['ps'], '') + mod('delta_list', p['dl'], '')
          + mod('superficial_loss', p['sl'], 'pub(crate) ') + extra_bookkeeping
          + "pub use delta_list::*;\npub use portfolio_status::*;\n")
    out.append(mod('portfolio', mod('bookkeeping', bk) + mod('csv_common', p['cc']) + mod('model', model)
                   + extra_portfolio
                   + "pub use self::model::affiliate::*;\npub use self::model::currency::*;\n"
                     "pub use self::model::tx::*;\npub use self::model::txdelta::*;\n"))
    out.append(extra_top)
    return ''.join(out)


def build(ctx):
    p = parts(ctx)
    return shim('base', 'std') + "verus! {\n" + assemble(p) + "} // verus!\nfn main() {}\n"


# default property tags of a function (first match wins); clause markers (//@ ...) in the overlay take precedence
TAG_RULES = [
    (r'delta_list::fn (lemma_step_conservation|lemma_chain_acb_some|theorem_conservation|lemma_sfla_sum|lemma_no_flag|lemma_sale_|lemma_pend_step|lemma_nonreg_frac)', ['C03']),
    (r'delta_list::fn lemma_sells_', ['C05']),
    (r'delta_list::fn (lemma_step_scales|lemma_scale_|lemma_ratio_scale_invariant|theorem_scaled_ledgers|theorem_split_|lemma_apply_scaled|lemma_split_block_inv|lemma_block_sum|lemma_msum_zero|lemma_step_wf|lemma_chain_wf|lemma_chain_concat)', ['C15', 'C10']),
    (r'delta_list::fn (theorem_buy_block|lemma_buy_block_inv|theorem_summary_roundtrip)', ['C10', 'C16']),
    (r'delta_list::fn (lemma_chain_side|lemma_settle_insert)', ['C17']),
    (r'delta_list::fn lemma_opening_equiv', ['C16']),
    (r'delta_list::fn get_delta_superficial_loss_info', ['C02', 'C03']),
    (r'delta_list::fn sanity_check_ptfs', ['C04']),
    (r'delta_list::fn delta_for_tx', ['C01', 'C03']),
    (r'delta_list::', ['C01']),
    (r'superficial_loss::fn get_superficial_loss_info', ['C02', 'C15']),
    (r'superficial_loss::', ['C02']),
    (r'portfolio_status::.*fn new', ['C04', 'C16']),
    (r'portfolio_status::.*fn (get_next_pre_status|get_latest_post_status_for_affiliate)', ['C01', 'C04']),
    (r'portfolio_status::', ['C04']),
    (r'util::decimal', ['C04', 'C01']),
    (r'util::math::fn lemma_', ['C03', 'C06']),
    (r'util::math::', ['C02']),
    (r'model::tx::\{impl (PartialOrd|Ord) for', ['C07']),
    (r'model::tx::.*fn (try_from|buy_or_sell_common_attrs_from_csv_tx|get_valid_exchange_rate)', ['C01', 'C12']),
    (r'model::tx::.*fn (is_reverse_split|pre_to_post_factor)', ['C15', 'C01']),
    (r'model::tx::', ['C01']),
    (r'model::currency::', ['C12']),
    (r'model::txdelta::.*fn (is_loss_sale|is_superficial_loss)', ['C10']),
    (r'model::txdelta::', ['C01']),
    (r'model::affiliate::', ['C04']),
]
