"""unit bk: the bookkeeping stack (decimal, math, model/*, portfolio_status, delta_list,
superficial_loss, csv_common)."""
from vx.build import Src, mod, shim

NAME = 'bk'
VERUS_FLAGS = ['--no-lifetime']
VERIFY_MODULES = None   # all


def parts(ctx):
    """returns dict of module texts (raw, after the mechanical rewrites)"""
    def load(p):
        return Src(ctx, p).cut_tests().standard()
    dec = load('util/decimal.rs')
    for f, why in (('dollar_precision_str', 'string formatting'), ('to_string_min_precision', 'string formatting'), ('to_string_min_precision', 'string formatting'),
                   ('parse_large_decimal', 'string parsing')):
        dec.drop_fn(f, why=why)
    math = load('util/math.rs')
    aff = load('portfolio/model/affiliate.rs')
    aff.drop_rx(r'(?m)^lazy_static! \{', why='(regex / global dedup table)')
    aff.drop_rx(r'(?m)^impl AffiliateData \{', why='(regex-based from_strep)')
    aff.drop_rx(r'(?m)^pub struct AffiliateDedupTable \{', why='(global table)')
    aff.drop_rx(r'(?m)^impl AffiliateDedupTable \{', why='(global table)')
    aff.ext_fn('from_strep', why='interned affiliate from the global table')
    aff.ext_fn('hash', why='Hash impl; consistency with Eq assumed')
    aff.ext_fn('is_default', why='string comparison of the id')
    aff.strip_derive('Affiliate', 'Clone')
    cur = load('portfolio/model/currency.rs')
    cur.strip_derive('Currency', 'Clone')
    cur.ext_fn('new', why='string upper-casing')
    tx = load('portfolio/model/tx.rs')
    tx.drop_rx(r'(?m)^impl TryFrom<&str> for TxAction \{', why='(string parsing)')
    tx.ext_fn('parse', why='regex parsing of the split ratio')
    tx.strip_derive('Tx', 'Clone')
    txd = load('portfolio/model/txdelta.rs')
    txd.strip_derive('PortfolioSecurityStatus', 'Clone')
    ps = load('portfolio/bookkeeping/portfolio_status.rs')
    dl = Src(ctx, 'portfolio/bookkeeping/delta_list.rs').cut_after('// MARK: tests').cut_tests().standard()
    dl.drop_fn('unwrap_full_deltas', why='test helper')
    dl.replace("for (new_tx_i, new_tx) in new_txs.into_iter().enumerate() {",
               "let mut new_tx_i: usize = 0; for new_tx in new_txs {", 'R9')
    dl.replace("some_modified_txs.insert(i + new_tx_i + 1, new_tx);",
               "some_modified_txs.insert(i + new_tx_i + 1, new_tx); new_tx_i += 1;", 'R9')
    dl.replace("sfl.acb_adjust_affiliate_ratios.keys().collect();",
               "hole_keys(&sfl.acb_adjust_affiliate_ratios);", 'H')
    dl.replace("acb_adjust_affiliates.sort_by(|a, b| a.id().cmp(b.id()));",
               "sort_affs(&mut acb_adjust_affiliates);", 'H')
    dl.replace("&sfl.acb_adjust_affiliate_ratios[af]", "sfl.acb_adjust_affiliate_ratios.get(af).unwrap()", 'R15')
    sl = Src(ctx, 'portfolio/bookkeeping/superficial_loss.rs').cut_after('// MARK: tests').cut_tests().standard()
    sl.replace("for af in &self.buying_affiliates {", "for af in self.buying_affiliates.iter() {", 'R8')
    sl.replace("for af in &sli.buying_affiliates {", "for af in sli.buying_affiliates.iter() {", 'R8')
    sl.replace("pub(super) struct SflRatioResultResult", "pub struct SflRatioResultResult", 'R14')
    cc = load('portfolio/csv_common.rs')
    cc.drop_fn('get_csv_cols', why='column name tables')
    cc.drop_fn('export_order_non_deprecated_cols', why='column name tables')
    return dict(dec=dec.text(), math=math.text(), aff=aff.text(), cur=cur.text(), tx=tx.text(),
                txd=txd.text(), ps=ps.text(), dl=dl.text(), sl=sl.text(), cc=cc.text())


def assemble(p, extra_util='', extra_bookkeeping='', extra_portfolio='', extra_top='', extra_model=''):
    out = []
    out.append(mod('util', mod('basic', 'pub type SError = String;') + mod('decimal', p['dec'])
                   + mod('math', p['math']) + extra_util))
    model = mod('affiliate', p['aff']) + mod('currency', p['cur']) + mod('tx', p['tx']) + mod('txdelta', p['txd']) + extra_model
    bk = (mod('portfolio_status', p['ps'], '') + mod('delta_list', p['dl'], '')
          + mod('superficial_loss', p['sl'], 'pub(crate) ') + extra_bookkeeping
          + "pub use delta_list::*;\npub use portfolio_status::*;\n")
    out.append(mod('portfolio', mod('bookkeeping', bk) + mod('csv_common', p['cc']) + mod('model', model)
                   + extra_portfolio
                   + "pub use self::model::affiliate::*;\npub use self::model::currency::*;\n"
                     "pub use self::model::tx::*;\npub use self::model::txdelta::*;\n"))
    out.append(extra_top)
    return ''.join(out)


def build(ctx):
    p = parts(ctx)
    return shim('base') + "verus! {\n" + assemble(p) + "} // verus!\nfn main() {}\n"
