"""unit xlr: peripheral/excel.rs (SheetReader: header name -> column, cell access) on stand-ins for the office crate and
for the std iterator adapters of read_sheet_header (shim/office_stubs.rs)."""
import os, re
from vx.build import Src, mod, shim, MARKER, BuildError

NAME = 'xlr'
OVERLAYS = ['xlr']
VERUS_FLAGS = ['--no-lifetime']
VERIFY_MODULES = ['peripheral::excel']
DEFAULT_TAGS = ['C18']


def tuple_closure_params(q):
    """R31: a closure whose parameter is a tuple pattern, `|(a, b)| EXPR`, becomes `|__p| { let (a, b) = __p; EXPR }`
    (Verus accepts only variables as closure parameters); EXPR is the text up to the closing parenthesis of the call
    the closure is an argument of"""
    n = 0
    while True:
        m = re.search(r'\|(\((?:\s*\w+\s*,)+\s*\w+\s*\))\|\s*', q.s)
        if not m:
            break
        i = m.end()
        depth = 0
        j = i
        s = q.s
        while j < len(s):
            c = s[j]
            if c in '([{':
                depth += 1
            elif c in ')]}':
                if depth == 0:
                    break
                depth -= 1
            elif c == ',' and depth == 0:
                break
            j += 1
        if j >= len(s):
            raise BuildError('%s: R31 cannot find the end of a closure body' % q.path)
        body = s[i:j].rstrip()
        q.s = s[:m.start()] + '|__p| { let ' + m.group(1) + ' = __p; ' + body + ' }' + s[i + len(body):]
        n += 1
    if n:
        q.note('R31', '%d closures with a tuple-pattern parameter: |(a, b)| E -> |__p| { let (a, b) = __p; E }' % n)


def build(ctx):
    sc = Src(ctx, 'peripheral/sheet_common.rs').cut_tests().standard()
    sc.only(['struct SheetParseError', 'impl SheetParseError'])
    x = Src(ctx, 'peripheral/excel.rs').cut_tests().standard()
    x.sub(r'(?ms)^use [^;]*;\n', '', 'select')
    x.sub(r'(?<![\w:])office::Rows', 'crate::office::Rows', 'R1', required=True)
    x.sub(r'\bfirst_row\s*\.into_iter\(\)', 'crate::itx::slice_iter(first_row)', 'R32', required=True)
    x.sub(r'\bcol_names\.into_iter\(\)', 'crate::itx::vec_iter(col_names)', 'R32', required=True)
    x.replace('HashMap::from_iter(', 'crate::itx::hashmap_from_iter(', 'R32')
    tuple_closure_params(x)
    x.replace('DataType::Error(e) => format!("{e:?}"),', 'DataType::Error(e) => crate::office::error_to_string(e),', 'R26')
    x.replace('DataType::Bool(b) => b.to_string(),', 'DataType::Bool(b) => crate::office::bool_to_string(b),', 'R26')
    x.replace('DataType::Int(v) => v.to_string(),', 'DataType::Int(v) => crate::office::int_to_string(v),', 'R26')
    x.replace('DataType::Float(v) => v.to_string(),', 'DataType::Float(v) => crate::office::float_to_string(v),', 'R26')
    use_x = ("use std::collections::HashMap;\nuse crate::office::DataType;\nuse crate::rust_decimal::Decimal;\n"
             "use crate::peripheral::sheet_common::SheetParseError;\n")
    per = mod('sheet_common', sc.text()) + mod('excel', use_x + x.text())
    d = os.path.join(os.path.dirname(os.path.dirname(os.path.abspath(__file__))), 'shim')
    head = shim('base', 'std').replace(MARKER, '') + open(os.path.join(d, 'office_stubs.rs')).read() + MARKER
    return head + "verus! {\n" + mod('peripheral', per) + "} // verus!\nfn main() {}\n"


TAG_RULES = [(r'excel::', ['C18'])]
