"""unit rnd: run_acb_app_to_render_model of app/approot.rs (visits the securities in sorted order, concatenates their deltas,
hands them to the gains / total-costs computations) together with run_acb_app_to_delta_models (unit drv), whose contract it
uses, on top of bk + fx + ord + agg + costs; rendering itself is assumed"""
import os
from vx.build import Src, mod, shim
import units.bk as bk
import units.costs as costsu
import units.fx as fxu
import units.drv as drvu

NAME = 'rnd'
OVERLAYS = ['bk', 'fx', 'ord', 'drv', 'agg', 'costs', 'rnd']
VERUS_FLAGS = ['--no-lifetime']
VERIFY_MODULES = ['app::approot']


def OVERLAY_FILTER(op):
    # of the agg overlay only the cumulative_gains module is used (its approot part is re-done here)
    return not ('mod app' in op['path'] and op.get('_src') == 'agg')


def build(ctx):
    p = bk.parts(ctx)
    cg = Src(ctx, 'portfolio/cumulative_gains.rs').cut_tests().standard()
    cg.replace("self.capital_gains_years_totals.keys().copied().collect();", "hole_year_keys(&self.capital_gains_years_totals);", 'H')
    cg.replace("for gains in sec_gains.values() {", "let __it1 = hole_values(sec_gains);\n    for gains in __it1 {", 'H')
    cg.replace("for (year, year_gains) in &gains.capital_gains_years_totals {",
               "let __it2 = gains.capital_gains_years_totals.iter();\n        for (year, year_gains) in __it2 {", 'R18')
    c = costsu.costs_text(ctx)
    rd = Src(ctx, 'portfolio/render.rs').cut_tests().standard()
    rd.only(['struct RenderTable', 'struct CostsTables', 'fn render_tx_table_model', 'fn render_aggregate_capital_gains', 'fn render_total_costs'],
            why='table rendering is string code (tabled crate)')
    rd.sub(r'(?ms)^use [^;]*;\n', '', 'select')
    for f in ('render_tx_table_model', 'render_aggregate_capital_gains', 'render_total_costs'):
        rd.ext_fn(f, why='string rendering')
    f = fxu.fx_parts(ctx)
    import units.ord as ordu
    o = ordu.ord_parts(ctx)
    ar = drvu.approot_src(ctx, ['type Error', 'fn run_acb_app_to_delta_models', 'struct AllCumulativeCapitalGains', 'fn get_cumulative_capital_gains',
                                'struct AppRenderResult', 'fn run_acb_app_to_render_model', 'fn write_render_result', 'fn run_acb_app_to_writer'])
    ar.ext_fn('get_cumulative_capital_gains', why='verified in unit agg; its result is left arbitrary here')
    ar.replace("\nstruct AllCumulativeCapitalGains", "\npub struct AllCumulativeCapitalGains", 'R14')
    ar.replace("\nfn get_cumulative_capital_gains", "\npub fn get_cumulative_capital_gains", 'R14')
    ar.replace("deltas_results_by_sec.into_iter().collect();", "hole_map_into_vec(deltas_results_by_sec);", 'H')
    ar.replace("let mut secs: Vec<Security> = sec_render_tables.keys().cloned().collect();", "let mut secs: Vec<Security> = hole_table_keys(sec_render_tables);", 'H')
    ar.sub(r'(?s)println!\(\s*"\\n\[!\] There are errors for the following securities: \{\}",\s*secs_with_errors\.join\(", "\)\s*\);', 'crate::tracing::info!("errors");', 'R3', required=True)
    om = Src(ctx, 'app/outfmt/model.rs').cut_tests().standard()
    om.sub(r'(?ms)^use [^;]*;\n', '', 'select')
    ar.replace("let mut deltas_copy = deltas.iter().cloned().collect();", "let mut deltas_copy = hole_clone_deltas(deltas);", 'H')
    app_use = (drvu.APP_USE + "use crate::stdx::*;\nuse crate::portfolio::*;\nuse crate::portfolio::bookkeeping::*;\n"
               "use crate::portfolio::render::{render_aggregate_capital_gains, render_tx_table_model, CostsTables, RenderTable};\n")
    app = mod('app', mod('outfmt', mod('model', "use crate::portfolio::render::RenderTable;\n" + om.text())) + mod('approot', app_use + "use crate::app::outfmt::model::{AcbWriter, OutputType};\n" + ar.text()))
    ustubs = open(os.path.join(os.path.dirname(os.path.dirname(os.path.abspath(__file__))), 'shim', 'util_stubs.rs')).read()
    render_use = "use crate::portfolio::{CumulativeCapitalGains, TxDelta};\nuse crate::portfolio::bookkeeping::Costs;\n"
    head = drvu.with_csv_stubs(shim('base', 'std').replace('verus! {\n/// Trusted contracts for std', fxu.MACROS + 'verus! {\n/// Trusted contracts for std', 1))
    return (head + "verus! {\n"
            + bk.assemble(p, extra_util=ustubs, extra_bookkeeping=mod('costs', c.text()) + "pub use self::costs::*;\n",
                          extra_portfolio=mod('io', mod('tx_loader', f['txl']) + drvu.tx_csv_part(ctx)) + o['mods']
                          + mod('cumulative_gains', cg.text(), '') + "pub use self::cumulative_gains::*;\n"
                          + mod('render', render_use + rd.text()),
                          extra_top=f['fx'] + app)
            + "} // verus!\nfn main() {}\n")


def OVERLAY_SPLIT(op):
    if 'mod tx_csv' in op['path'] or 'fn run_acb_app_to_delta_models' in op['path'] or op.get('before_item') == 'fn run_acb_app_to_delta_models':
        return 'drv'
    if 'mod app' in op['path'] or 'mod render' in op['path']:
        return 'rnd'
    if 'mod cumulative_gains' in op['path']:
        return 'agg'
    if 'mod costs' in op['path']:
        return 'costs'
    return drvu.OVERLAY_SPLIT(op)


TAG_RULES = [
    (r'approot::fn run_acb_app_to_render_model', ['C09', 'C17']),
    (r'approot::', ['C08', 'C04', 'C06']),
] + bk.TAG_RULES
