"""unit rnd: run_acb_app_to_render_model of app/approot.rs (visits the securities in sorted order, concatenates their deltas,
hands them to the gains / total-costs computations) together with run_acb_app_to_delta_models (unit drv), whose contract it
uses, on top of bk + fx + ord + agg + costs; rendering itself is assumed"""
import os
from vx.build import Src, mod, shim
import units.bk as bk
import units.costs as costsu
import units.fx as fxu
import units.drv as drvu

NAME = 'rnd'
OVERLAYS = ['bk', 'fx', 'ord', 'drv', 'inp', 'agg', 'costs', 'rnd']
VERUS_FLAGS = ['--no-lifetime']
VERIFY_MODULES = ['app::approot', 'cmd']


def OVERLAY_FILTER(op):
    # of the agg overlay only the cumulative_gains module is used (its approot part is re-done here)
    return not ('mod app' in op['path'] and op.get('_src') == 'agg')


def build(ctx):
    p = bk.parts(ctx)
    cg = Src(ctx, 'portfolio/cumulative_gains.rs').cut_tests().standard()
    cg.replace("self.capital_gains_years_totals.keys().copied().collect();", "hole_year_keys(&self.capital_gains_years_totals);", 'H')
    cg.replace("for gains in sec_gains.values() {", "let __it1 = hole_values(sec_gains);\n    for gains in __it1 {", 'H')
    cg.replace("for (year, year_gains) in &gains.capital_gains_years_totals {",
               "let __it2 = gains.capital_gains_years_totals.iter();\n        for (year, year_gains) in __it2 {", 'R18')
    c = costsu.costs_text(ctx)
    rd = Src(ctx, 'portfolio/render.rs').cut_tests().standard()
    rd.only(['struct RenderTable', 'struct CostsTables', 'fn render_tx_table_model', 'fn render_aggregate_capital_gains', 'fn render_total_costs'],
            why='table rendering is string code (tabled crate)')
    rd.sub(r'(?ms)^use [^;]*;\n', '', 'select')
    for f in ('render_tx_table_model', 'render_aggregate_capital_gains', 'render_total_costs'):
        rd.ext_fn(f, why='string rendering')
    f = fxu.fx_parts(ctx)
    import units.ord as ordu
    o = ordu.ord_parts(ctx)
    ar = drvu.approot_src(ctx, ['type Error', 'fn run_acb_app_to_delta_models', 'struct AllCumulativeCapitalGains', 'fn get_cumulative_capital_gains',
                                'struct AppRenderResult', 'fn run_acb_app_to_render_model', 'fn write_render_result', 'fn run_acb_app_to_writer',
                                'struct Options', 'fn run_acb_app_summary_to_console', 'fn run_acb_app_to_console'])
    ar.ext_fn('run_acb_app_summary_to_console', why='summary mode front end: run_acb_app_summary_to_model is verified in unit smd, the printing of its result is not')
    ar.sub(r'(?m)^#\[cfg\(not\(target_arch = "wasm32"\)\)\]\n', '', 'select')
    ar.replace('let writer_ref: &mut dyn AcbWriter = writer.as_mut();', 'let writer_ref: &mut dyn AcbWriter = &mut *writer;', 'R36')
    ar.replace('super::outfmt::csv::CsvWriter::new_to_output_dir(&dir_path)', 'crate::wrx::csv_dir_writer(&dir_path)', 'H')
    ar.sub(r'(?s)Box::new\(super::outfmt::text::TextWriter::new\(\s*WriteHandle::stdout_write_handle\(\),\s*\)\)', 'Box::new(crate::wrx::text_writer(WriteHandle::stdout_write_handle()))', 'H', required=True)

    ar.ext_fn('get_cumulative_capital_gains', why='verified in unit agg; its result is left arbitrary here')
    ar.replace("\nstruct AllCumulativeCapitalGains", "\npub struct AllCumulativeCapitalGains", 'R14')
    ar.replace("\nfn get_cumulative_capital_gains", "\npub fn get_cumulative_capital_gains", 'R14')
    ar.replace("deltas_results_by_sec.into_iter().collect();", "hole_map_into_vec(deltas_results_by_sec);", 'H')
    ar.replace("let mut secs: Vec<Security> = sec_render_tables.keys().cloned().collect();", "let mut secs: Vec<Security> = hole_table_keys(sec_render_tables);", 'H')
    ar.sub(r'(?s)println!\(\s*"\\n\[!\] There are errors for the following securities: \{\}",\s*secs_with_errors\.join\(", "\)\s*\);', 'crate::tracing::info!("errors");', 'R3', required=True)
    cm = Src(ctx, 'cmd.rs').cut_tests().standard()
    cm.only(['struct Args', 'fn command_main'], why='the long help text is string code')
    cm.sub(r'(?ms)^use [^;]*;\n', '', 'select')
    cm.sub(r'(?ms)^#\[command\(.*?\)\]\n', '', 'R33')
    cm.sub(r'(?ms)^\s*#\[arg\(.*?\)\]\n', '', 'R33')
    cm.sub(r'#\[derive\(Parser\)\]\n', '', 'R33')
    cm.note('R33', 'clap attributes and derive removed from cmd::Args (plain struct; parsing of the command line is a hole)')
    cm.replace('    crate::tracing::setup_tracing();\n', '', 'R3')
    cm.sub(r'(?s)    if args\.verbose \{\s*crate::log::set_verbose\(true\);\s*\}\n', '', 'R3', required=True)
    cm.replace('let args = Args::parse();', 'let args = hole_parse_args();', 'H')
    cm.replace('DescribedReader::from_file_path(PathBuf::from(csv_name))', 'DescribedReader::from_file_name(csv_name)', 'H')
    cm.replace('crate::util::os::home_dir_path()', 'crate::cli::home_dir_path()', 'H')
    cm.replace('Box::new(CsvRatesCache::new(home_dir, err_printer.clone())),', 'crate::cli::csv_rates_cache(home_dir, err_printer.clone()),', 'H')
    cm.replace('JsonRemoteRateLoader::new_boxed(StandaloneAppRequester::new_boxed()),', 'crate::cli::json_remote_loader(),', 'H')
    cm.replace('async_std::task::block_on(run_acb_app_to_console(', '(run_acb_app_to_console(', 'R10')
    cmd_use = ("use crate::cli::ExitCode;\nuse crate::app::approot::run_acb_app_to_console;\nuse crate::fx::io::RateLoader;\nuse crate::portfolio::io::tx_csv::TxCsvParseOptions;\n"
               "use crate::util::date::parse_standard_date;\nuse crate::util::date_fmt::parse_dyn_date_format;\nuse crate::app::input_parse::parse_initial_status;\n"
               "use crate::util::rw::WriteHandle;\nuse crate::util::rw_reader::DescribedReader;\nuse vstd::std_specs::iter::IteratorSpec;\n")
    om = Src(ctx, 'app/outfmt/model.rs').cut_tests().standard()
    om.sub(r'(?ms)^use [^;]*;\n', '', 'select')
    ar.replace("let mut deltas_copy = deltas.iter().cloned().collect();", "let mut deltas_copy = hole_clone_deltas(deltas);", 'H')
    app_use = (drvu.APP_USE + "use crate::stdx::*;\nuse crate::portfolio::*;\nuse crate::portfolio::bookkeeping::*;\n"
               "use crate::portfolio::render::{render_aggregate_capital_gains, render_tx_table_model, CostsTables, RenderTable};\n")
    app = mod('app', mod('outfmt', mod('model', "use crate::portfolio::render::RenderTable;\n" + om.text())) + mod('approot', app_use + "use crate::app::outfmt::model::{AcbWriter, OutputType};\n" + ar.text()) + drvu.input_parse_part(ctx) + "pub use self::approot::Options;\n") + mod('cmd', cmd_use + cm.text())
    ustubs = open(os.path.join(os.path.dirname(os.path.dirname(os.path.abspath(__file__))), 'shim', 'util_stubs.rs')).read()
    render_use = "use crate::portfolio::{CumulativeCapitalGains, TxDelta};\nuse crate::portfolio::bookkeeping::Costs;\n"
    head = drvu.with_csv_stubs(shim('base', 'std').replace('verus! {\n/// Trusted contracts for std', fxu.MACROS + 'verus! {\n/// Trusted contracts for std', 1))
    from vx.build import MARKER
    sd = os.path.join(os.path.dirname(os.path.dirname(os.path.abspath(__file__))), 'shim')
    head = head.replace(MARKER, '') + open(os.path.join(sd, 'wr_stubs.rs')).read() + open(os.path.join(sd, 'cli_stubs.rs')).read() + MARKER
    return (head + "verus! {\n"
            + bk.assemble(p, extra_util=ustubs, extra_bookkeeping=mod('costs', c.text()) + "pub use self::costs::*;\n",
                          extra_portfolio=mod('io', mod('tx_loader', f['txl']) + drvu.tx_csv_part(ctx)) + o['mods']
                          + mod('cumulative_gains', cg.text(), '') + "pub use self::cumulative_gains::*;\n"
                          + mod('render', render_use + rd.text()),
                          extra_top=f['fx'] + app)
            + "} // verus!\nfn main() {}\n")


def OVERLAY_SPLIT(op):
    if 'mod tx_csv' in op['path'] or 'fn run_acb_app_to_delta_models' in op['path'] or op.get('before_item') == 'fn run_acb_app_to_delta_models':
        return 'drv'
    if 'mod input_parse' in op['path']:
        return 'inp'
    if 'mod app' in op['path'] or 'mod render' in op['path'] or 'mod cmd' in op['path']:
        return 'rnd'
    if 'mod cumulative_gains' in op['path']:
        return 'agg'
    if 'mod costs' in op['path']:
        return 'costs'
    return drvu.OVERLAY_SPLIT(op)


TAG_RULES = [
    (r'approot::fn run_acb_app_to_render_model', ['C09', 'C17']),
    (r'cmd::', ['C16', 'C05']),
    (r'approot::', ['C08', 'C04', 'C06']),
] + bk.TAG_RULES
