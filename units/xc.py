"""unit xc: peripheral/tx_export_convert_impl.rs (run_with_args: option filters, sort, conversion to CSV rows, table, writer) on top of
unit qt (questrade::sheet_to_txs, FxTracker, BrokerTx) and the tx_csv writer of unit drv."""
import os, re
from vx.build import Src, mod, shim, MARKER, BuildError
import units.bk as bk
import units.qt as qtu
import units.conv as convu
import units.drv as drvu
import units.fx as fxu

NAME = 'xc'
OVERLAYS = ['bk', 'conv', 'qt', 'fx', 'drv', 'rnd', 'xc']
VERUS_FLAGS = ['--no-lifetime']
VERIFY_MODULES = ['peripheral::tx_export_convert_impl']


def build(ctx):
    x = Src(ctx, 'peripheral/tx_export_convert_impl.rs').cut_tests().standard()
    x.only(['fn read_xl_file', 'fn filter_and_verify_tx_accounts', 'enum BrokerArg', 'struct Args', 'fn run_with_args'],
           why='clap entry point `run` and the Display impl are outside')
    x.sub(r'(?ms)^use [^;]*;\n', '', 'select')
    x.sub(r'(?m)^\s*#\[(arg|command)\([^\]]*\)\]\n', '', 'R33')
    x.sub(r'(?ms)^\s*#\[arg\(.*?\)\]\n', '', 'R33')
    x.sub(r'#\[derive\(clap::ValueEnum, Clone\)\]', '', 'R33')
    x.sub(r'#\[derive\(Parser\)\]', '', 'R33')
    x.note('R33', 'clap attributes and derives removed from Args / BrokerArg (plain structs; parsing of the command line is outside)')
    x.ext_fn('read_xl_file', why='xlsx reading (office crate)')
    x.sub(r'\bPathBuf\b', 'crate::xl::Path', 'R1')
    x.replace('fn read_xl_file(path: &Path, sheet_name: Option<&str>) -> Result<Range, SError>', 'fn read_xl_file(path: &crate::xl::Path, sheet_name: Option<&str>) -> Result<crate::xl::Range, SError>', 'R1')
    x.replace('args.sheet.as_ref().map(|v| v.as_str())', 'hole_sheet_name(&args.sheet)', 'H')
    # iterator chains -> stand-in adapters (R32); the closures keep their text
    x.sub(r'\btxs\s*\.into_iter\(\)', 'crate::itx::vec_iter(txs)', 'R32', required=True)
    x.sub(r'(?s)let accounts: HashSet<&Account> =\s*HashSet::from_iter\(txs\.iter\(\)\.map\(\|tx\| &tx\.account\)\);', 'let accounts = hole_account_set(&txs);', 'H', required=True)
    x.sub(r'(?s)let accounts_str = accounts\s*\.iter\(\)\s*\.map\(\|ac\| ac\.account_str\(\)\)\s*\.collect::<Vec<String>>\(\)\s*\.join\(", "\);', 'let accounts_str = crate::fmt_stub();', 'H', required=True)
    x.replace('!tx.security.ends_with(".FX")', '!crate::xcx::ends_with_fx(&tx.security)', 'R26')
    x.replace('for tx in &mut txs {', 'let mut __i: usize = 0;\n        while __i < txs.len() {\n            let __k = __i;\n            __i += 1;\n            let tx = &mut txs[__k];', 'R21')
    x.replace('filt.is_match(&tx.account.account_str())', 'filt.is_match(&crate::xcx::account_str(&tx.account))', 'H')
    x.replace('let _ = write!(err_w, "Error:");', 'err_w.emit();', 'R3')
    # R34: `E.map_err(|e| { S })?;` where S writes to the captured `&mut` error stream -> `match E { Ok(v) => v, Err(e) => { S return Err(()); } };`
    m = re.search(r'(?s)    printer\n        \.print_render_table\((.*?)\n        \)\n        \.map_err\(\|e\| \{\n            write_errln!\(err_w, "\{e\}"\);\n        \}\)\?;', x.s)
    if not m:
        raise BuildError('%s: pinned text for R34 (map_err closure writing to err_w) not found' % x.path)
    x.s = (x.s[:m.start()] + '    match printer\n        .print_render_table(' + m.group(1) + '\n        )\n    {\n        Ok(v) => v,\n        Err(e) => {\n            write_errln!(err_w, "{e}");\n            return Err(());\n        }\n    };' + x.s[m.end():])
    x.note('R34', '`E.map_err(|e| { write_errln!(err_w, ..) })?` -> `match E { Ok(v) => v, Err(e) => { write_errln!(err_w, ..); return Err(()); } }` (a closure may not capture a &mut; the function returns Result<(), ()>)')
    x.replace('let _ = write!(err_w, "Errors:");', 'err_w.emit();', 'R3')
    x.replace('Box::new(TextWriter::new(out_w))', 'Box::new(crate::wrx::text_writer(out_w))', 'H')
    x.replace('Box::new(CsvWriter::new_to_writer(out_w))', 'Box::new(crate::wrx::csv_writer(out_w))', 'H')
    x.replace('txs.into_iter().map(|t| t.into()).collect();', 'txs.into_iter().map(|t| t.into()).collect();', 'R32', required=False)
    use_x = ("use std::collections::HashSet;\nuse crate::regex::Regex;\nuse crate::rust_decimal::Decimal;\nuse crate::app::outfmt::model::AcbWriter;\n"
             "use crate::peripheral::broker::{Account, BrokerTx, questrade};\nuse crate::portfolio::Currency;\nuse crate::util::basic::SError;\nuse crate::util::rw::WriteHandle;\n")
    rd = Src(ctx, 'portfolio/render.rs').cut_tests().standard()
    rd.only(['struct RenderTable', 'impl From < super :: io :: tx_csv :: PlainCsvTable > for RenderTable'], why='only the table type and its construction from a CSV table')
    rd.sub(r'(?ms)^use [^;]*;\n', '', 'select')
    rd.replace('header: value.header.into_iter().map(String::from).collect(),', 'header: hole_header_strings(value.header),', 'H')
    om = Src(ctx, 'app/outfmt/model.rs').cut_tests().standard()
    om.sub(r'(?ms)^use [^;]*;\n', '', 'select')
    app = mod('app', mod('outfmt', mod('model', "use crate::portfolio::render::RenderTable;\n" + om.text())))
    d = os.path.join(os.path.dirname(os.path.dirname(os.path.abspath(__file__))), 'shim')
    ustubs = open(os.path.join(d, 'util_stubs.rs')).read()
    extra_head = (open(os.path.join(d, 'csv_stubs.rs')).read() + open(os.path.join(d, 'office_stubs.rs')).read() + open(os.path.join(d, 'csvw_stubs.rs')).read()
                  + open(os.path.join(d, 'xc_stubs.rs')).read() + open(os.path.join(d, 'wr_stubs.rs')).read())
    return qtu.build(ctx, extra_per=mod('tx_export_convert_impl', use_x + x.text()), extra_util=ustubs,
                     extra_portfolio=mod('io', drvu.tx_csv_part(ctx)) + mod('render', rd.text()),
                     extra_top=fxu.fx_parts(ctx)['fx'] + app, extra_head=extra_head, macros=fxu.MACROS)


def OVERLAY_FILTER(op):
    """of the shared buckets drv / rnd only the ops of mod tx_csv and mod outfmt::model are used here"""
    src = op.get('_src')
    if src == 'fx':
        return 'mod fx' in op['path']
    if src == 'drv':
        return 'mod tx_csv' in op['path']
    if src == 'rnd':
        return 'mod model' in op['path'] and 'mod outfmt' in op['path']
    return True


def OVERLAY_SPLIT(op):
    if 'mod tx_export_convert_impl' in op['path'] or 'mod render' in op['path']:
        return 'xc'
    if 'mod tx_csv' in op['path']:
        return 'drv'
    if 'mod fx' in op['path']:
        return 'fx'
    if 'mod outfmt' in op['path']:
        return 'rnd'
    return qtu.OVERLAY_SPLIT(op)


TAG_RULES = [
    (r'tx_export_convert_impl::|render::', ['C18']),
] + qtu.TAG_RULES
