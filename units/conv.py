"""unit conv: peripheral/broker/{fx_tracker,broker_tx}.rs + SheetParseError on the bk base"""
from vx.build import Src, mod, shim
import units.bk as bk

NAME = 'conv'
OVERLAYS = ['bk', 'conv']
VERUS_FLAGS = ['--no-lifetime']
VERIFY_MODULES = ['peripheral::broker::fx_tracker', 'peripheral::broker::broker_tx', 'peripheral::sheet_common']


def build(ctx):
    p = bk.parts(ctx)
    fxt = Src(ctx, 'peripheral/broker/fx_tracker.rs').cut_tests().standard()
    fxt.replace("use crate::rust_decimal::{prelude::One, Decimal};", "use crate::rust_decimal::Decimal;", 'R1')
    fxt.replace("Decimal::one()", "crate::rust_decimal::dec_lit(Ghost(1real))", 'R2', count=0)
    fxt.replace('currency.as_str().to_string() + ".FX"', 'crate::fmt_stub()', 'H')
    btx = Src(ctx, 'peripheral/broker/broker_tx.rs').cut_tests().standard()
    btx.strip_derive('BrokerTx', 'Clone')
    sc = Src(ctx, 'peripheral/sheet_common.rs').cut_tests().standard()
    sc.only(['struct SheetParseError', 'impl SheetParseError'])
    per = mod('sheet_common', sc.text()) + mod('broker', mod('broker_tx', btx.text(), '') + mod('fx_tracker', fxt.text(), '')
                                               + "pub use self::broker_tx::*;\npub use self::fx_tracker::*;\n")
    return (shim('base', 'std') + "verus! {\n" + bk.assemble(p, extra_top=mod('peripheral', per))
            + "} // verus!\nfn main() {}\n")


def OVERLAY_SPLIT(op):
    return 'conv' if 'mod peripheral' in op['path'] else 'bk'


TAG_RULES = [
    (r'peripheral::', ['C18']),
] + bk.TAG_RULES
