"""unit pdf: LazyPageTextVec::safe_page_chunks_with_remainder_pn and OptimizedPageIter of peripheral/pdf.rs (stand-alone)"""
import os
from vx.build import Src, mod, shim, MARKER

NAME = 'pdf'
OVERLAYS = ['pdf']
VERUS_FLAGS = []
VERIFY_MODULES = ['peripheral::pdf']
DEFAULT_TAGS = ['C20']


def build(ctx):
    s = Src(ctx, 'peripheral/pdf.rs').cut_tests().standard()
    s.only(['fn get_num_pages', 'struct LazyPageTextVec', 'impl LazyPageTextVec', 'struct OptimizedPageIter',
            "impl < 'a > OptimizedPageIter < 'a >", "impl < 'a > Iterator for OptimizedPageIter < 'a >"],
           why='pdf text extraction (lopdf / pdf_extract / python) is outside the verifier')
    s.sub(r'(?ms)^use [^;]*;\n', '', 'select')
    s.ext_fn('get_num_pages', why='lopdf page table')
    # load_pages: the text extraction itself is a hole (one text per requested page); the cache update loop is the repository's
    s.sub(r'(?s)let page_texts_res = if self\.load_async_blocking \{\s*get_pages_text_async_blocking\(self\.doc\.clone\(\), &page_numbers\)\s*\} else \{\s*get_pages_text\(self\.doc\.as_ref\(\), &page_numbers\)\s*\};',
          'let page_texts_res = hole_get_pages_text(self.load_async_blocking, page_numbers);', 'H', required=True)
    s.replace('for (page_num, text) in page_numbers.iter().zip(page_texts) {', 'let __pairs = hole_zip(page_numbers, page_texts);\n                for (page_num, text) in __pairs {', 'H')
    s.replace("(1..num_pages + 1).filter(|p| !found_pages.contains(p)).collect();", "hole_missing_pages(num_pages, &found_pages);", 'H')
    s.replace("self.unyielded_pages = group_pages.iter().map(|pn| *pn).collect();", "self.unyielded_pages = hole_to_deque(group_pages);", 'H')
    s.replace("impl<'a> Iterator for OptimizedPageIter<'a> {\n    // Page number and text\n    type Item = (u32, Rc<String>);\n\n    fn next(&mut self) -> Option<Self::Item> {",
              "impl<'a> OptimizedPageIter<'a> {\n    // Page number and text\n    pub fn next(&mut self) -> Option<(u32, Rc<String>)> {", 'R23')
    body = ("use std::{collections::VecDeque, rc::Rc, sync::Arc};\nuse std::collections::HashSet;\nuse crate::lopdf::Document;\n"
            "use crate::util::basic::SError;\nuse crate::stdx::*;\nuse vstd::std_specs::iter::IteratorSpec;\n" + s.text())
    d = os.path.join(os.path.dirname(os.path.dirname(os.path.abspath(__file__))), 'shim')
    head = shim('base', 'std').replace(MARKER, '') + open(os.path.join(d, 'pdf_stubs.rs')).read() + MARKER
    return head + "verus! {\n" + mod('peripheral', mod('pdf', body)) + "} // verus!\nfn main() {}\n"


TAG_RULES = [(r'pdf::', ['C20'])]
