"""unit summary: the range function and the simple summary of portfolio/summary.rs on the bk base"""
import os
from vx.build import Src, mod, shim
import units.bk as bk

NAME = 'summary'
OVERLAYS = ['bk', 'summary']
VERUS_FLAGS = ['--no-lifetime']
VERIFY_MODULES = ['portfolio::summary']


def build(ctx):
    p = bk.parts(ctx)
    sm = Src(ctx, 'portfolio/summary.rs').cut_after('// MARK: Tests').cut_tests().standard()
    sm.replace("use tracing::debug;\n", "", 'R3', required=False)
    sm.replace("use crate::tracing::debug;\n", "", 'R3', required=False)
    sm.sub(r'(?<![:\w])debug!\(', 'crate::tracing::debug!(', 'R3')
    sm.enum_loop("for (i, delta) in deltas.iter().enumerate() {", "let mut i: usize = 0;\n    for delta in deltas.iter() {", 'i')
    sm.replace("yearly_cap_gains.keys().cloned().collect();", "hole_i32_keys(&yearly_cap_gains);", 'H')
    sm.replace("let gain_or_loss = yearly_cap_gains[&year];", "let gain_or_loss = *yearly_cap_gains.get(&year).unwrap();", 'R15')
    sm.replace("let tx = &latest_year_delta[&year].tx;", "let tx = &latest_year_delta.get(&year).unwrap().tx;", 'R15')
    sm.only(['type Warning', 'struct SummaryRanges', 'const GET_SUMMARY_RANGE_DELTA_INDICIES_WARN',
             'fn get_summary_range_delta_indicies', 'const SHARE_BALANCE_ZERO_WARNING', 'fn make_simple_summary_txs',
             'fn make_annual_gains_summary_txs'],
            why='make_summary_txs / annual-gains variant / aggregate use extend, iter_mut and HashSet chains not brought into the dialect')
    stubs = open(os.path.join(os.path.dirname(os.path.dirname(os.path.abspath(__file__))), 'shim', 'util_stubs.rs')).read()
    return (shim('base', 'std') + "verus! {\n"
            + bk.assemble(p, extra_util=stubs, extra_portfolio=mod('summary', sm.text()))
            + "} // verus!\nfn main() {}\n")


def OVERLAY_SPLIT(op):
    return 'summary' if 'mod summary' in op['path'] else 'bk'


TAG_RULES = [
    (r'summary::', ['C10']),
] + bk.TAG_RULES
