"""unit summary: the range function and the simple summary of portfolio/summary.rs on the bk base"""
import os
from vx.build import Src, mod, shim
import units.bk as bk

NAME = 'summary'
OVERLAYS = ['bk', 'summary']
VERUS_FLAGS = ['--no-lifetime']
VERIFY_MODULES = ['portfolio::summary']


def summary_src(ctx):
    sm = Src(ctx, 'portfolio/summary.rs').cut_after('// MARK: Tests').cut_tests().standard()
    sm.replace("use tracing::debug;\n", "", 'R3', required=False)
    sm.replace("use crate::tracing::debug;\n", "", 'R3', required=False)
    sm.sub(r'(?<![:\w])debug!\(', 'crate::tracing::debug!(', 'R3')
    sm.enum_loop("for (i, delta) in deltas.iter().enumerate() {", "let mut i: usize = 0;\n    for delta in deltas.iter() {", 'i')
    sm.replace("yearly_cap_gains.keys().cloned().collect();", "hole_i32_keys(&yearly_cap_gains);", 'H')
    sm.replace("let gain_or_loss = yearly_cap_gains[&year];", "let gain_or_loss = *yearly_cap_gains.get(&year).unwrap();", 'R15')
    sm.replace("let tx = &latest_year_delta[&year].tx;", "let tx = &latest_year_delta.get(&year).unwrap().tx;", 'R15')
    # make_summary_txs
    sm.replace("let affil_last_summarizable_delta_idx =\n            affil_last_summarizable_delta_idxs[&af];",
               "let affil_last_summarizable_delta_idx =\n            *affil_last_summarizable_delta_idxs.get(&af).unwrap();", 'R15')
    sm.replace("for (i, tx) in summary_period_txs.iter_mut().enumerate() {\n        tx.read_index = i as u32;\n    }",
               "let mut __j: usize = 0;\n    while __j < summary_period_txs.len() {\n        let i = __j;\n        let tx = &mut summary_period_txs[__j];\n        __j += 1;\n        tx.read_index = i as u32;\n    }", 'R21')
    sm.replace("for tx in summary_period_txs.iter_mut() {\n        tx.read_index = 0;\n    }",
               "let mut __j2: usize = 0;\n    while __j2 < summary_period_txs.len() {\n        let tx = &mut summary_period_txs[__j2];\n        __j2 += 1;\n        tx.read_index = 0;\n    }", 'R21')
    sm.replace("summary_period_txs.extend(af_sum_txs.into_iter());", "hole_extend_txs(&mut summary_period_txs, af_sum_txs);", 'H')
    sm.replace("warnings.extend(warns.into_iter());", "hole_extend_warnings(&mut warnings, warns);", 'H')
    sm.replace("deltas[first_unsumarizable_delta_idx\n                ..=summary_range.latest_delta_in_summary_range_idx]\n                .iter()\n                .collect()",
               "hole_collect_refs(&deltas[first_unsumarizable_delta_idx\n                ..=summary_range.latest_delta_in_summary_range_idx])", 'H')
    sm.replace("deltas[..=summary_range.latest_delta_in_summary_range_idx]\n                .iter()\n                .collect()",
               "hole_collect_refs(&deltas[..=summary_range.latest_delta_in_summary_range_idx])", 'H')
    sm.replace("(summary_period_txs, warnings.into_iter().collect())", "(summary_period_txs, hole_set_to_vec(warnings))", 'H')
    # make_aggregate_summary_txs
    sm.replace("let mut sorted_secs: Vec<&String> = deltas_by_sec.keys().collect();", "let mut sorted_secs: Vec<&String> = hole_sec_keys(deltas_by_sec);", 'H')
    sm.replace("let deltas = &deltas_by_sec[*sec];", "let deltas = deltas_by_sec.get(*sec).unwrap();", 'R15')
    sm.replace("all_warnings.get_mut(&warning).unwrap().push((**sec).clone());",
               "let __w = all_warnings.get_mut(&warning).unwrap();\n            __w.push((**sec).clone());", 'R22')
    sm.replace("all_summary_txs.extend(summary_txs.into_iter());", "hole_extend_txs(&mut all_summary_txs, summary_txs);", 'H')
    sm.only(['type Warning', 'struct SummaryRanges', 'const GET_SUMMARY_RANGE_DELTA_INDICIES_WARN',
             'fn get_summary_range_delta_indicies', 'const SHARE_BALANCE_ZERO_WARNING', 'fn make_simple_summary_txs',
             'fn make_annual_gains_summary_txs', 'fn make_summary_txs', 'struct CollectedSummaryData', 'fn make_aggregate_summary_txs'],
            why='make_summary_txs / annual-gains variant / aggregate use extend, iter_mut and HashSet chains not brought into the dialect')
    return sm


def build(ctx):
    p = bk.parts(ctx)
    sm = summary_src(ctx)
    stubs = open(os.path.join(os.path.dirname(os.path.dirname(os.path.abspath(__file__))), 'shim', 'util_stubs.rs')).read()
    return (shim('base', 'std') + "verus! {\n"
            + bk.assemble(p, extra_util=stubs, extra_portfolio=mod('summary', sm.text()))
            + "} // verus!\nfn main() {}\n")


def OVERLAY_SPLIT(op):
    return 'summary' if 'mod summary' in op['path'] else 'bk'


TAG_RULES = [
    (r'summary::', ['C10']),
] + bk.TAG_RULES
