"""unit costs: portfolio/bookkeeping/costs.rs on top of the bk base"""
from vx.build import Src, mod, shim
import units.bk as bk

NAME = 'costs'
OVERLAYS = ['bk', 'costs']
VERUS_FLAGS = ['--no-lifetime']
VERIFY_MODULES = ['portfolio::bookkeeping::costs']


def costs_text(ctx):
    c = Src(ctx, 'portfolio/bookkeeping/costs.rs').cut_tests().standard()
    c.strip_derive('MaxSingleDayCosts', 'Clone')
    c.replace("for d in all_deltas {",
              "let mut __i: usize = 0;\n    while __i < all_deltas.len() {\n        let d = &all_deltas[__i];\n        __i += 1;", 'R19')
    c.replace("max_day_costs.max_costs_by_day.keys().map(|d| *d).collect();", "hole_date_keys(&max_day_costs.max_costs_by_day);", 'H')
    c.replace(" max_costs_by_day.keys().map(|d| *d).collect();", " hole_date_keys(&max_costs_by_day);", 'H')
    c.replace("for sec in &security_set {", "for sec in security_set.iter() {", 'R8')
    c.replace("for (day, day_cost) in &max_day_costs.max_costs_by_day {",
              "let __it1 = max_day_costs.max_costs_by_day.iter();\n    for (day, day_cost) in __it1 {", 'R18')
    c.replace("for (year, date) in max_cost_day_for_year {",
              "let __it2 = max_cost_day_for_year.iter();\n    for (__y, __d) in __it2 {\n        let year = *__y; let date = *__d;", 'R20')
    c.replace("let mut years: Vec<i32> = self.yearly.keys().map(|y| *y).collect();", "let mut years: Vec<i32> = hole_year_keys_costs(&self.yearly);", 'H')
    return c


def build(ctx):
    p = bk.parts(ctx)
    c = costs_text(ctx)
    return (shim('base', 'std') + "verus! {\n" + bk.assemble(p, extra_bookkeeping=mod('costs', c.text()))
            + "} // verus!\nfn main() {}\n")


def OVERLAY_SPLIT(op):
    return 'costs' if 'mod costs' in op['path'] else 'bk'

TAG_RULES = [
    (r'costs::fn (calc_yearly_max_cost_day|calc_total_costs)', ['C17', 'C09']),
    (r'costs::', ['C17']),
] + bk.TAG_RULES
