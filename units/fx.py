"""unit fx: fx/io/rate_loader.rs, fx/model.rs, the RatesCache / RemoteRateLoader trait declarations, and
portfolio/io/tx_loader.rs on the bk base (real CsvTx / Currency)."""
import os
from vx.build import Src, mod, shim
import units.bk as bk

NAME = 'fx'
OVERLAYS = ['bk', 'fx']
VERUS_FLAGS = ['--no-lifetime']
VERIFY_MODULES = ['fx::io::rate_loader', 'fx::model', 'portfolio::io::tx_loader', 'fx::io']

MACROS = ("macro_rules! write_errln { ($w:expr, $($arg:tt)*) => {{ ($w).emit(); }} }\n"
          "macro_rules! concat { ($($t:tt)*) => { \"\" } }\n")


def deasync(s):
    s.sub(r'\basync fn\b', 'fn', 'R10')
    s.sub(r'\.await\b', '', 'R10')
    return s


def fx_parts(ctx):
    rl = Src(ctx, 'fx/io/rate_loader.rs').cut_tests()
    rl.cut_after('pub mod testlib {')
    rl.standard()
    deasync(rl)
    for u in ("use crate::util::http::HttpRequester;\n", "use crate::write_errln;\n", "use std::io::Write;\n"):
        rl.replace(u, "", 'R1')
    rl.sub(r'(?m)^use crate::tracing::\{[^}]*\};\n', '', 'R3')
    rl.sub(r'\b(debug|error|info|trace)!\(', r'crate::tracing::\1!(', 'R3')
    rl.replace("use super::{JsonRemoteRateLoader, RatesCache};", "use super::RatesCache;", 'R1')
    rl.drop_fn('new_cached_remote_loader', why='constructs the HTTP/JSON loader')
    rl.drop_fn('blocking_get_effective_usd_cad_rate', why='tokio runtime wrapper')
    rl.replace("use crate::rust_decimal::{prelude::Zero, Decimal};", "use crate::rust_decimal::Decimal;", 'R1')
    rl.replace("Decimal::zero()", "Decimal::ZERO", 'R2', count=0)
    rl.sub(r'\bfor _ in\b', 'for _i in', 'R8')
    rl.replace("filled_rates.shrink_to_fit();", "", 'R11', required=False)
    model = Src(ctx, 'fx/model.rs').cut_tests().standard()
    model.strip_derive('DailyRate', 'Clone')
    rc = Src(ctx, 'fx/io/rates_cache.rs').cut_tests().standard()
    rc.only(['trait RatesCache'])
    rc.sub(r'(?ms)^(pub )?use [^;]*;\n', '', 'select')
    rc.sub(r'(?m)^#\[cfg\([^\n]*\)\]\n', '', 'select')
    rr = Src(ctx, 'fx/io/remote_rate_loader.rs').cut_tests().standard()
    rr.only(['struct RateParseResult', 'type RateLoadResult', 'trait RemoteRateLoader'])
    rr.sub(r'(?ms)^use [^;]*;\n', '', 'select')
    rr.replace("#[async_trait::async_trait(?Send)]\n", "", 'R10')
    deasync(rr)
    txl = Src(ctx, 'portfolio/io/tx_loader.rs').cut_tests().standard()
    deasync(txl)
    txl.replace("for tx in csv_txs {", "let mut __i: usize = 0;\n    while __i < csv_txs.len() {\n        let __k = __i;\n        __i += 1;\n        let tx = &mut csv_txs[__k];", 'R21')
    io = (mod('rate_loader', rl.text(), '')
          + "pub type Error = String;\npub use self::rate_loader::*;\nuse crate::fx::DailyRate;\nuse crate::util::basic::SError;\n"
          + rc.text() + rr.text())
    fx = mod('fx', mod('io', io) + mod('model', model.text(), '') + "pub use self::model::*;\n")
    return dict(fx=fx, txl=txl.text())


def build(ctx):
    p = bk.parts(ctx)
    f = fx_parts(ctx)
    fx, txl_text = f['fx'], f['txl']
    stubs = open(os.path.join(os.path.dirname(os.path.dirname(os.path.abspath(__file__))), 'shim', 'util_stubs.rs')).read()
    return (shim('base', 'std').replace('verus! {\n/// Trusted contracts for std', MACROS + 'verus! {\n/// Trusted contracts for std', 1) + "verus! {\n"
            + bk.assemble(p, extra_util=stubs, extra_portfolio=mod('io', mod('tx_loader', txl_text)), extra_top=fx)
            + "} // verus!\nfn main() {}\n")


def OVERLAY_SPLIT(op):
    return 'fx' if ('mod fx' in op['path'] or 'mod io' in op['path']) else 'bk'


TAG_RULES = [
    (r'tx_loader::', ['C12']),
    (r'rate_loader::.*fn (get_exact_usd_cad_rate|fetch_usd_cad_rates_for_date_year|get_remote_usd_cad_rates|new)', ['C13', 'C12']),
    (r'rate_loader::', ['C12', 'C13']),
    (r'fx::', ['C12', 'C13']),
] + bk.TAG_RULES
