"""unit etr: amend_benefit_sales of peripheral/etrade_plan_pdf_tx_extract_impl.rs (matching sell-to-cover trades to benefits)
on the bk base + BrokerTx"""
from vx.build import Src, mod, shim
import units.bk as bk

NAME = 'etr'
OVERLAYS = ['bk', 'conv', 'etr']
VERUS_FLAGS = ['--no-lifetime']
VERIFY_MODULES = ['peripheral::etrade_plan_pdf_tx_extract_impl']


def build(ctx):
    p = bk.parts(ctx)
    btx = Src(ctx, 'peripheral/broker/broker_tx.rs').cut_tests().standard()
    btx.drop_rx(r'(?m)^impl Into<crate::portfolio::CsvTx> for BrokerTx \{', why='(conversion to CsvTx: string formatting)')
    btx.strip_derive('BrokerTx', 'Clone')
    et = Src(ctx, 'peripheral/broker/etrade.rs').cut_tests().standard()
    et.only(['struct BenefitEntry'], why='regex-based PDF text parsers are outside the verifier')
    et.sub(r'(?ms)^use [^;]*;\n', '', 'select')
    et.strip_derive('BenefitEntry', 'Clone')
    im = Src(ctx, 'peripheral/etrade_plan_pdf_tx_extract_impl.rs').cut_tests().standard()
    im.only(['struct PdfData', 'fn find_sell_to_cover_trade_set', 'struct BenefitsAndTrades', 'struct AmendBenefitsRes', 'fn amend_benefit_sales'],
            why='pdf parsing, the itertools subset search and CSV rendering are outside the verifier')
    im.sub(r'(?ms)^use [^;]*;\n', '', 'select')
    im.ext_fn('find_sell_to_cover_trade_set', why='itertools combination search; contract: distinct candidates, at least one')
    im.replace("for benefit in &mut benefits {", "let mut __i: usize = 0;\n    while __i < benefits.len() {\n        let __k = __i;\n        __i += 1;\n        let benefit = &mut benefits[__k];", 'R21')
    im.replace("leftover_trade_confs\n                        .iter()\n                        .enumerate()\n                        .position(|(i, t_)| t_ == t && !indexes.contains(&i))\n                        .unwrap();",
               "hole_position(&leftover_trade_confs, t, &indexes)\n                        .unwrap();", 'H')
    im.sub(r'(?s)warn \+= &format!\((.*?)\);', r'crate::str_append(&mut warn, format!(\1));', 'H', required=True)
    use_et = "use crate::rust_decimal::Decimal;\nuse crate::time::Date;\nuse crate::util::basic::SError;\n"
    use_im = ("use vstd::multiset::Multiset;\nuse vstd::std_specs::iter::IteratorSpec;\nuse crate::stdx::*;\nuse crate::rust_decimal::Decimal;\nuse crate::time::Date;\nuse crate::util::basic::SError;\nuse crate::portfolio::TxAction;\n"
              "use crate::peripheral::broker::BrokerTx;\nuse crate::peripheral::broker::etrade::BenefitEntry;\n")
    per = (mod('broker', mod('broker_tx', btx.text(), '') + "pub use self::broker_tx::*;\n" + mod('etrade', use_et + et.text()))
           + mod('etrade_plan_pdf_tx_extract_impl', use_im + im.text()))
    return (shim('base', 'std') + "verus! {\n" + bk.assemble(p, extra_top=mod('peripheral', per))
            + "} // verus!\nfn main() {}\n")


def OVERLAY_SPLIT(op):
    if 'mod etrade' in op['path'] or 'mod etrade_plan_pdf_tx_extract_impl' in op['path']:
        return 'etr'
    return 'conv' if 'mod peripheral' in op['path'] else 'bk'


def OVERLAY_FILTER(op):
    # of the conv overlay only the BrokerTx part is used here
    return not ('mod fx_tracker' in op['path'] or 'mod sheet_common' in op['path'])


TAG_RULES = [
    (r'etrade', ['C19']),
] + bk.TAG_RULES
