"""unit etr: amend_benefit_sales of peripheral/etrade_plan_pdf_tx_extract_impl.rs (matching sell-to-cover trades to benefits)
on the bk base + BrokerTx"""
from vx.build import Src, mod, shim
import units.bk as bk

NAME = 'etr'
OVERLAYS = ['bk', 'conv', 'etr']
VERUS_FLAGS = ['--no-lifetime']
VERIFY_MODULES = ['peripheral::etrade_plan_pdf_tx_extract_impl']


def build(ctx):
    p = bk.parts(ctx)
    btx = Src(ctx, 'peripheral/broker/broker_tx.rs').cut_tests().standard()
    btx.strip_derive('BrokerTx', 'Clone')
    et = Src(ctx, 'peripheral/broker/etrade.rs').cut_tests().standard()
    et.only(['struct BenefitEntry', 'struct SellToCoverData', 'impl BenefitEntry'], why='regex-based PDF text parsers are outside the verifier')
    et.ext_fn('sell_to_cover_data', why='local struct with derived Default/PartialEq; contract: all five fields or none')
    et.sub(r'(?ms)^use [^;]*;\n', '', 'select')
    et.strip_derive('BenefitEntry', 'Clone')
    im = Src(ctx, 'peripheral/etrade_plan_pdf_tx_extract_impl.rs').cut_tests().standard()
    im.enum_loop("for (i, b) in trade_data.benefits.iter().enumerate() {", "let mut i: usize = 0;\n    for b in trade_data.benefits.iter() {", 'i')
    im.enum_loop("for (i, trade) in trade_data.other_trades.iter().enumerate() {", "let mut i: usize = 0;\n    for trade in trade_data.other_trades.iter() {", 'i')
    im.sub(r'(?s)tx\.memo = Some\(\s*match tx\.memo \{.*?\} \+ "\(manual trade\)",\s*\);', 'tx.memo = Some(crate::fmt_stub());', 'H', required=True)
    im.only(['struct PdfData', 'fn txs_from_data', 'fn find_sell_to_cover_trade_set', 'struct BenefitsAndTrades', 'struct AmendBenefitsRes', 'fn amend_benefit_sales'],
            why='pdf parsing, the itertools subset search and CSV rendering are outside the verifier')
    im.sub(r'(?ms)^use [^;]*;\n', '', 'select')
    # find_sell_to_cover_trade_set: the itertools / std iterator chains become stand-ins (H), the search logic itself stays
    im.replace("for trades in trade_confs.iter().combinations(n) {", "let __combos = hole_combinations(trade_confs, n);\n        for trades in __combos {", 'H')
    im.sub(r'(\w+)\.iter\(\)\.(all|any)\(\|t\| t\.security == benefit\.security\)', r'hole_\2_same_security(&\1, &benefit.security)', 'H', required=True)
    im.replace("let n_shares: Decimal = trades.iter().map(|t| t.num_shares).sum();", "let n_shares: Decimal = hole_sum_shares(&trades);", 'H')
    im.replace("all_matching_trades.push(trades.into_iter().map(|t| *t).collect());", "all_matching_trades.push(hole_deref_refs(trades));", 'H')
    im.replace("let matching_trades = all_matching_trades.into_iter().next().unwrap();", "let matching_trades = hole_take_first(all_matching_trades);", 'H')
    # the ranking closure stays the repository's text; only the std adapters around and inside it are stand-ins
    im.sub(r'(?s)(let mut trade_combos: Vec<TradesCombination> = )all_matching_trades\s*\.into_iter\(\)\s*\.map\(\|trades\| (\{.*?\})\)\s*\.collect\(\);',
           r'\1hole_map_combos(all_matching_trades, |trades: Vec<&BrokerTx>| \2);', 'H', required=True)
    im.sub(r'trades\.iter\(\)\.map\(\|t\| t\.amount_per_share \* t\.num_shares\)\.sum\(\)', 'hole_sum_value(&trades)', 'H', required=True)
    im.sub(r'(let total_shares: Decimal =\s*)trades\.iter\(\)\.map\(\|t\| t\.num_shares\)\.sum\(\)', r'\1hole_sum_shares1(&trades)', 'H', required=True)
    im.sub(r'(?s)let combos_str = trade_combos\s*\.iter\(\).*?\.join\("\\n  "\);', 'let combos_str = crate::fmt_stub();', 'H', required=True)
    im.replace("Ok(trade_combos.into_iter().next().unwrap().trades)", "Ok(hole_take_first_combo(trade_combos).trades)", 'H')
    # the local struct of the function becomes a module-level item (R28): Verus has no items inside function bodies
    im.sub(r'(?s)        struct TradesCombination<\'a> \{.*?\n        \}\n', '', 'R28', required=True)
    im.replace("for benefit in &mut benefits {", "let mut __i: usize = 0;\n    while __i < benefits.len() {\n        let __k = __i;\n        __i += 1;\n        let benefit = &mut benefits[__k];", 'R21')
    im.replace("leftover_trade_confs\n                        .iter()\n                        .enumerate()\n                        .position(|(i, t_)| t_ == t && !indexes.contains(&i))\n                        .unwrap();",
               "hole_position(&leftover_trade_confs, t, &indexes)\n                        .unwrap();", 'H')
    im.sub(r'(?s)warn \+= &format!\((.*?)\);', r'crate::str_append(&mut warn, format!(\1));', 'H', required=True)
    use_et = "use crate::rust_decimal::Decimal;\nuse crate::time::Date;\nuse crate::util::basic::SError;\n"
    use_im = ("use crate::portfolio::CsvTx;\nuse crate::portfolio::Currency;\nuse vstd::multiset::Multiset;\nuse vstd::std_specs::iter::IteratorSpec;\nuse crate::stdx::*;\nuse crate::rust_decimal::Decimal;\nuse crate::time::Date;\nuse crate::util::basic::SError;\nuse crate::portfolio::TxAction;\n"
              "use crate::peripheral::broker::BrokerTx;\nuse crate::peripheral::broker::etrade::{BenefitEntry, SellToCoverData};\n")
    tc = ("pub struct TradesCombination<'a> {\n    pub trades: Vec<&'a BrokerTx>,\n    pub average_price: Decimal,\n    pub abs_difference_from_benefit_price: Decimal,\n}\n")
    per = (mod('broker', mod('broker_tx', btx.text(), '') + "pub use self::broker_tx::*;\n" + mod('etrade', use_et + et.text()))
           + mod('etrade_plan_pdf_tx_extract_impl', use_im + tc + im.text()))
    return (shim('base', 'std') + "verus! {\n" + bk.assemble(p, extra_top=mod('peripheral', per))
            + "} // verus!\nfn main() {}\n")


def OVERLAY_SPLIT(op):
    if 'mod etrade' in op['path'] or 'mod etrade_plan_pdf_tx_extract_impl' in op['path']:
        return 'etr'
    return 'conv' if 'mod peripheral' in op['path'] else 'bk'


def OVERLAY_FILTER(op):
    # of the conv overlay only the BrokerTx part is used here
    return not ('mod fx_tracker' in op['path'] or 'mod sheet_common' in op['path'])


TAG_RULES = [
    (r'etrade', ['C19']),
] + bk.TAG_RULES
