"""unit wr: app/outfmt/csv.rs -- CsvWriter::print_render_table (what is written for a render table: header, rows, footer, notes,
errors) on a stand-in for the csv crate's writer (shim/csvw_stubs.rs)."""
import os, re
from vx.build import Src, mod, shim, MARKER, BuildError

NAME = 'wr'
OVERLAYS = ['wr']
VERUS_FLAGS = ['--no-lifetime']
VERIFY_MODULES = ['app::outfmt::csv']
DEFAULT_TAGS = ['C04']


def build(ctx):
    c = Src(ctx, 'app/outfmt/csv.rs').cut_tests().standard()
    c.only(['enum WriteMode', 'struct CsvWriter', 'impl CsvWriter', 'impl AcbWriter for CsvWriter'], why='')
    c.sub(r'(?ms)^use [^;]*;\n', '', 'select')
    c.ext_fn('new_to_output_dir', why='creates the output directory')
    c.ext_fn('get_writer', why='opens the file / clones the handle')
    c.replace("Directory(PathBuf),", "Directory(crate::csvw::Sink),", 'R1')
    c.replace("pub fn new_to_output_dir(out_dir: &String) -> Result<CsvWriter, io::Error>", "pub fn new_to_output_dir(out_dir: &String) -> Result<CsvWriter, crate::csvw::CsvErr>", 'R1')
    c.sub(r'\) -> Result<Box<dyn std::io::Write>, super::model::Error>', ') -> Result<crate::csvw::Sink, super::model::Error>', 'R1', required=True)
    # R23: the trait method is verified as an inherent method (a trait impl method can carry no precondition; the table must have a column)
    c.replace("impl AcbWriter for CsvWriter {\n    fn print_render_table(", "impl CsvWriter {\n    pub fn print_render_table(", 'R23')
    c.sub(r'(?s)let mut csv_w =\s*(?:crate::)?csv::WriterBuilder::new\(\)\.has_headers\(true\)\.from_writer\(writer\);', 'let mut csv_w = crate::csvw::writer_from(writer);', 'H', required=True)
    c.replace('note_record.resize(n_cols, String::new());', 'crate::csvw::resize_empty(&mut note_record, n_cols);', 'H')
    c.replace('err_record.resize(n_cols, String::new());', 'crate::csvw::resize_empty(&mut err_record, n_cols);', 'H')
    c.replace('err_record[0] = format!("[!] {err}");', 'err_record[0] = crate::csvw::err_text(err);', 'H')
    om = Src(ctx, 'app/outfmt/model.rs').cut_tests().standard()
    om.sub(r'(?ms)^use [^;]*;\n', '', 'select')
    rd = Src(ctx, 'portfolio/render.rs').cut_tests().standard()
    rd.only(['struct RenderTable'], why='only the table type')
    rd.sub(r'(?ms)^use [^;]*;\n', '', 'select')
    d = os.path.join(os.path.dirname(os.path.dirname(os.path.abspath(__file__))), 'shim')
    ustubs = open(os.path.join(d, 'util_stubs.rs')).read()
    head = shim('base', 'std').replace(MARKER, '') + open(os.path.join(d, 'csvw_stubs.rs')).read() + MARKER
    use_c = "use crate::util::rw::WriteHandle;\nuse crate::app::outfmt::model::{AcbWriter, OutputType};\nuse vstd::std_specs::iter::IteratorSpec;\n"
    return (head + "verus! {\n"
            + mod('util', mod('basic', 'pub type SError = String;') + re.sub(r'(?s)pub mod date \{.*?\n\}\n', '', ustubs, count=1))
            + mod('portfolio', mod('render', rd.text()))
            + mod('app', mod('outfmt', mod('model', "use crate::portfolio::render::RenderTable;\n" + om.text()) + mod('csv', use_c + c.text())))
            + "} // verus!\nfn main() {}\n")


TAG_RULES = [(r'outfmt::csv', ['C04'])]
