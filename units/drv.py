"""unit drv: run_acb_app_to_delta_models of app/approot.rs (the function that reads the CSV files, assigns read
indices, sorts, partitions per security, expands global splits and runs the ledger) on top of bk + fx + ord."""
import os
import re
from vx.build import Src, mod, shim, MARKER, BuildError
import units.bk as bk
import units.fx as fxu

NAME = 'drv'
OVERLAYS = ['bk', 'fx', 'ord', 'drv', 'inp']
OWN_OVERLAYS = ['drv', 'inp']
VERUS_FLAGS = ['--no-lifetime']
VERIFY_MODULES = ['app::approot', 'app::input_parse', 'portfolio::io::tx_csv']


def const_match_to_if(q, head, scrut):
    """R30 for constants: `match S { PATH => E, .. _ => E }` over `&'static str` constants -> if / else-if chain over
    crate::csvx::str_eq(S, PATH); same arms, same order (a constant pattern of type &str compares the texts)"""
    s = q.s
    a = s.find(head)
    if a < 0 or s.count(head) != 1:
        raise BuildError('%s: pinned match header for R30 not found exactly once: %r' % (q.path, head))
    prefix = head[:head.index('match ')]
    i = a + len(head)
    arms = []
    while True:
        while s[i].isspace():
            i += 1
        if s[i] == '}':
            end = i + 1
            break
        mm = re.match(r'([A-Za-z_][\w:]*|_)\s*=>\s*', s[i:])
        if not mm:
            raise BuildError('%s: R30 cannot read a match arm at %r' % (q.path, s[i:i + 40]))
        pat = mm.group(1)
        i += mm.end()
        depth = 0
        j = i
        while True:
            c = s[j]
            if c in '([{':
                depth += 1
            elif c in ')]}':
                depth -= 1
            if (c == ',' and depth == 0) or (depth == 0 and c == '}' and s[i] == '{'):
                break
            j += 1
        if s[i] == '{':
            body = s[i:j + 1]
            i = j + 1
            if s[i:i + 1] == ',':
                i += 1
        else:
            body = '{ ' + s[i:j].strip() + ' }'
            i = j + 1
        arms.append((pat, body))
    if not arms or arms[-1][0] != '_':
        raise BuildError('%s: R30 expects a final `_` arm' % q.path)
    out = prefix
    for k, (pat, body) in enumerate(arms):
        out += ('else ' + body) if pat == '_' else (('if ' if k == 0 else 'else if ') + 'crate::csvx::str_eq(%s, %s) %s ' % (scrut, pat, body))
    q.s = s[:a] + out + s[end:]
    q.note('R30', 'match on &str constants -> if / else-if chain over crate::csvx::str_eq (%d arms, same order)' % len(arms))


def tx_csv_part(ctx):
    """portfolio/io/tx_csv.rs: the reading half (parse_tx_csv, csvtx_from_csv_values, the two cell parsers) on stand-ins for
    the csv crate and str helpers (shim/csv_stubs.rs)"""
    from units.qt import str_match_to_if
    tc = Src(ctx, 'portfolio/io/tx_csv.rs').cut_tests().standard()
    tc.only(['fn parse_csv_action', 'fn parse_csv_superficial_loss', 'fn csvtx_from_csv_values', 'struct TxCsvParseOptions', 'fn parse_tx_csv',
             'struct PlainCsvTable', 'fn txs_to_csv_table', 'fn write_txs_to_csv'],
            why='the test helpers are not extracted')
    tc.sub(r'(?ms)^(pub )?use [^;]*;\n', '', 'select')
    tc.replace("crate::util::date::DynDateFormat", "crate::util::date_fmt::DynDateFormat", 'R1')
    # parse_csv_action
    tc.replace("match value.trim().to_lowercase().as_str() {",
               "let __lc: String = crate::csvx::to_lower(crate::csvx::trim(value));\n    match __lc.as_str() {", 'R26')
    str_match_to_if(tc, "match __lc.as_str() {")
    tc.s = tc.s.replace('crate::xl::str_eq(', 'crate::csvx::str_eq(')
    # parse_csv_superficial_loss
    tc.replace('value.ends_with("!")', 'crate::csvx::ends_with_bang(value)', 'R26')
    tc.replace('&value[..value.len() - 1]', 'crate::csvx::drop_last(value)', 'R26')
    # csvtx_from_csv_values
    tc.sub(r'\bs\.trim\(\)\.is_empty\(\)', 'crate::csvx::str_is_empty(crate::csvx::trim(s.as_str()))', 'R26', required=True)
    # parse_tx_csv
    tc.sub(r'(?s)let mut reader_box = desc_reader\.reader\(\)\.map_err\(\|e\| e\.to_string\(\)\)\?;\s*'
           r'let reader: &mut dyn Read = reader_box\.borrow_mut\(\);\s*'
           r'let mut csv_r = (?:crate::)?csv::ReaderBuilder::new\(\)\.has_headers\(true\)\.from_reader\(reader\);',
           'let mut csv_r = crate::csvx::open_csv(desc_reader)?;', 'H', required=True)
    tc.replace('let col_names = CsvCol::get_csv_cols();', 'let col_names = crate::csvx::csv_cols();', 'H')
    tc.enum_loop('for (i, col) in headers_res.iter().enumerate() {',
                 'let mut i: usize = 0;\n    let __hf = crate::csvx::fields_vec(headers_res);\n    for col in __hf {', 'i')
    tc.replace('let lower_col = col.to_lowercase();', 'let lower_col = crate::csvx::to_lower(col);', 'R26')
    tc.replace('let san_col = lower_col.trim();', 'let san_col = crate::csvx::trim(lower_col.as_str());', 'R26')
    tc.enum_loop('for (i, record_res) in csv_r.records().enumerate() {',
                 'let mut i: usize = 0;\n    let __recs = crate::csvx::records_vec(&mut csv_r);\n    for record_res in __recs {', 'i')
    tc.enum_loop('for (i, col_val) in record.iter().enumerate() {',
                 'let mut __j: usize = 0;\n        let __fl = crate::csvx::fields_vec(&record);\n        for col_val in __fl {\n            let i = __j;', '__j')
    tc.replace('if !col_val.trim().is_empty() {', 'if !crate::csvx::str_is_empty(crate::csvx::trim(col_val)) {', 'R26')
    tc.replace('tx_values.insert(col_name, col_val.trim().to_string());', 'tx_values.insert(col_name, crate::csvx::to_string(crate::csvx::trim(col_val)));', 'R26')
    # txs_to_csv_table
    tc.replace("HashSet::<&'static str>::from([", "crate::itx::hashset_from([", 'R32')
    tc.sub(r'\ball_headers\s*\.iter\(\)', 'crate::itx::slice_iter(&all_headers)', 'R32', required=True)
    tc.replace("for col in &headers {", "for col in headers.iter() {", 'R8')
    const_match_to_if(tc, "let val: String = match *col {", "*col")
    tc.replace("tx.trade_date.map(|v| v.to_string()).unwrap_or_else(empty)", "tx.trade_date.map(|v| v.to_string()).unwrap_or_else(empty)", 'R26', required=True)
    tc.sub(r'(?s)format!\(\s*"\{\}\{\}",\s*v\.superficial_loss\.to_string_min_precision\(2\),\s*if v\.force \{ "!" \} else \{ "" \}\s*\)',
           'crate::csvx::with_mark(v.superficial_loss.to_string_min_precision(2), v.force)', 'H', required=True)
    tc.replace(".map(|v| v.name().to_string())", ".map(|v| crate::csvx::to_string(v.name()))", 'R26')
    tc.replace("_ => panic!(\"Invalid col {}\", col),", "_ => panic!(\"Invalid col\"),", 'R3', required=False)
    # write_txs_to_csv: the csv crate writer is a stand-in (ghost list of records)
    tc.sub(r'(?s)let mut csv_w = (?:crate::)?csv::WriterBuilder::new\(\)\.has_headers\(true\)\.from_writer\(writer\);', 'let mut csv_w = crate::csvw::writer_from_dyn(writer);', 'H', required=True)
    tc.replace('writer: &mut dyn std::io::Write,', 'writer: &mut crate::csvw::Sink,', 'R1')
    tc.replace(') -> Result<(), csv::Error> {', ') -> Result<(), crate::csvw::CsvErr> {', 'R1', required=False)
    tc.replace(') -> Result<(), crate::csv::Error> {', ') -> Result<(), crate::csvw::CsvErr> {', 'R1', required=False)
    # the export order table of csv_common.rs (dropped from the shared bk part) is needed here: same text, second inherent impl
    cc = Src(ctx, 'portfolio/csv_common.rs').cut_tests().standard()
    m = re.search(r"(?ms)^    pub fn export_order_non_deprecated_cols\(\).*?^    \}\n", cc.s)
    if not m:
        raise BuildError('portfolio/csv_common.rs: fn export_order_non_deprecated_cols not found')
    cc.note('select', 'fn export_order_non_deprecated_cols taken into mod tx_csv as `impl CsvCol { .. }`')
    export_impl = "impl CsvCol {\n" + m.group(0) + "}\n"
    tx_csv_use = ("use std::collections::{HashMap, HashSet};\nuse crate::rust_decimal::Decimal;\nuse crate::portfolio::csv_common::CsvCol;\n"
                  "use crate::portfolio::{Affiliate, CsvTx, Currency, SFLInput, SplitRatio, TxAction};\nuse crate::util::decimal::{to_string_min_precision, LessEqualZeroDecimal};\n"
                  "use crate::util::rw::WriteHandle;\nuse crate::util::rw_reader::DescribedReader;\nuse vstd::std_specs::iter::IteratorSpec;\ntype Error = String;\n")
    return mod('tx_csv', tx_csv_use + export_impl + tc.text())


def with_csv_stubs(head):
    """the csv / str stand-ins of tx_csv.rs go in front of the marker, next to the other shims"""
    d = os.path.join(os.path.dirname(os.path.dirname(os.path.abspath(__file__))), 'shim')
    return head.replace(MARKER, '') + open(os.path.join(d, 'csv_stubs.rs')).read() + open(os.path.join(d, 'office_stubs.rs')).read() + open(os.path.join(d, 'csvw_stubs.rs')).read() + MARKER


APP_USE = ("use std::collections::HashMap;\nuse vstd::std_specs::iter::IteratorSpec;\nuse crate::time::Date;\nuse crate::fx::io::RateLoader;\n"
           "use crate::portfolio::bookkeeping::{txs_to_delta_list, DeltaListResult, TxDeltaListError};\n"
           "use crate::portfolio::io::tx_csv::{parse_tx_csv, TxCsvParseOptions};\nuse crate::portfolio::io::tx_loader::load_tx_rates;\n"
           "use crate::portfolio::{PortfolioSecurityStatus, Security, Tx, TxDelta};\n"
           "use crate::util::rw::WriteHandle;\nuse crate::util::rw_reader::DescribedReader;\n")


def approot_src(ctx, items):
    """app/approot.rs reduced to `items`, with the rewrites and the syntactic obligation of run_acb_app_to_delta_models"""
    ar = Src(ctx, 'app/approot.rs').cut_tests().standard()
    ar.sub(r'\basync fn\b', 'fn', 'R10')
    ar.sub(r'\.await\b', '', 'R10')
    ar.only(items)
    ar.sub(r'(?ms)^use [^;]*;\n', '', 'select')
    ar.replace("for (sec, mut sec_txs) in txs_by_sec {", "let __ents = hole_map_entries(txs_by_sec);\n    for (sec, mut sec_txs) in __ents {", 'H')
    # syntactic obligation (not a Verus proof): once the rows are read, no `?` / `return` may leave the function --
    # a bookkeeping or split error of one security has to stay that security's result (C08, C04)
    from vx.lex import lex
    txt = ar.text()
    k = txt.find('let __ents = hole_map_entries(txs_by_sec);')
    e = txt.find('\n}\n', k)                     # end of the (top-level) function
    tail = [t[1] for t in lex(txt[k:e if e >= 0 else len(txt)])] if k >= 0 else ['?']
    # the final `Ok(delta_results)` is the tail expression; any `?` or `return` after the partition is an escape
    if '?' in tail or 'return' in tail:
        ctx.lints.append(dict(tags=['C08', 'C04'], function='app::approot::fn run_acb_app_to_delta_models',
                              label='per-security phase has no early exit: an error of one security stays its own result',
                              message='a `?` or `return` occurs after the rows have been partitioned per security; one '
                                      'security\'s error would abort the whole run'))
    return ar


def input_parse_part(ctx):
    """app/input_parse.rs: parse_initial_status (-b SYM:shares:acb); splitting / trimming / number syntax are stand-ins"""
    ip = Src(ctx, 'app/input_parse.rs').cut_tests().standard()
    ip.sub(r'(?ms)^use [^;]*;\n', '', 'select')
    ip.replace('let mut parts: Vec<String> = opt.split(":").map(|s| s.to_string()).collect();',
               'let mut parts: Vec<String> = hole_split_colon(opt);', 'H')
    ip.replace('let symbol = parts.pop().unwrap().trim().to_string();', 'let symbol = hole_trim_string(parts.pop().unwrap());', 'H')
    use = ("use std::collections::HashMap;\nuse crate::rust_decimal::Decimal;\nuse crate::portfolio::{PortfolioSecurityStatus, Security};\n"
           "use crate::util::decimal::GreaterEqualZeroDecimal;\n")
    return mod('input_parse', use + ip.text())


def build(ctx):
    p = bk.parts(ctx)
    f = fxu.fx_parts(ctx)
    import units.ord as ordu
    o = ordu.ord_parts(ctx)
    ar = approot_src(ctx, ['type Error', 'fn run_acb_app_to_delta_models'])
    app = mod('app', mod('approot', APP_USE + ar.text()) + input_parse_part(ctx))
    stubs = open(os.path.join(os.path.dirname(os.path.dirname(os.path.abspath(__file__))), 'shim', 'util_stubs.rs')).read()
    head = with_csv_stubs(shim('base', 'std').replace('verus! {\n/// Trusted contracts for std', fxu.MACROS + 'verus! {\n/// Trusted contracts for std', 1))
    return (head + "verus! {\n"
            + bk.assemble(p, extra_util=stubs,
                          extra_portfolio=mod('io', mod('tx_loader', f['txl']) + tx_csv_part(ctx))
                          + o['mods'],
                          extra_top=f['fx'] + app)
            + "} // verus!\nfn main() {}\n")


def OVERLAY_SPLIT(op):
    if 'mod input_parse' in op['path']:
        return 'inp'
    if 'mod app' in op['path'] or 'mod tx_csv' in op['path']:
        return 'drv'
    return fxu.OVERLAY_SPLIT(op) if fxu.OVERLAY_SPLIT(op) == 'fx' else ('ord' if ('mod misc' in op['path'] or 'mod splits' in op['path']) else 'bk')


TAG_RULES = [
    (r'txs_to_csv_table|write_txs_to_csv|export_order_non_deprecated_cols|lemma_table_reads_back|lemma_omitted_column|lemma_header_member|lemma_export_distinct|lemma_val_of_col|lemma_cell_texts|lemma_field_back|lemma_needed|lemma_back_|theorem_written_row_reads_back|lemma_non_optional_in_header', ['C10', 'C18']),
    (r'tx_csv::', ['C07']),
    (r'input_parse::', ['C16']),
    (r'approot::', ['C07', 'C08', 'C16', 'C04']),
] + bk.TAG_RULES
