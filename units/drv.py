"""unit drv: run_acb_app_to_delta_models of app/approot.rs (the function that reads the CSV files, assigns read
indices, sorts, partitions per security, expands global splits and runs the ledger) on top of bk + fx + ord."""
import os
from vx.build import Src, mod, shim
import units.bk as bk
import units.fx as fxu

NAME = 'drv'
OVERLAYS = ['bk', 'fx', 'ord', 'drv', 'inp']
OWN_OVERLAYS = ['drv', 'inp']
VERUS_FLAGS = ['--no-lifetime']
VERIFY_MODULES = ['app::approot', 'app::input_parse']


def tx_csv_part(ctx):
    tc = Src(ctx, 'portfolio/io/tx_csv.rs').cut_tests().standard()
    tc.only(['struct TxCsvParseOptions', 'fn parse_tx_csv'], why='csv crate / string parsing is outside the verifier')
    tc.sub(r'(?ms)^(pub )?use [^;]*;\n', '', 'select')
    tc.ext_fn('parse_tx_csv', why='csv parsing; contract: row i gets read index initial+i')
    tc.replace("crate::util::date::DynDateFormat", "crate::util::date_fmt::DynDateFormat", 'R1')
    tx_csv_use = "use crate::portfolio::CsvTx;\nuse crate::util::rw::WriteHandle;\nuse crate::util::rw_reader::DescribedReader;\ntype Error = String;\n"
    return mod('tx_csv', tx_csv_use + tc.text())


APP_USE = ("use std::collections::HashMap;\nuse vstd::std_specs::iter::IteratorSpec;\nuse crate::time::Date;\nuse crate::fx::io::RateLoader;\n"
           "use crate::portfolio::bookkeeping::{txs_to_delta_list, DeltaListResult, TxDeltaListError};\n"
           "use crate::portfolio::io::tx_csv::{parse_tx_csv, TxCsvParseOptions};\nuse crate::portfolio::io::tx_loader::load_tx_rates;\n"
           "use crate::portfolio::{PortfolioSecurityStatus, Security, Tx, TxDelta};\n"
           "use crate::util::rw::WriteHandle;\nuse crate::util::rw_reader::DescribedReader;\n")


def approot_src(ctx, items):
    """app/approot.rs reduced to `items`, with the rewrites and the syntactic obligation of run_acb_app_to_delta_models"""
    ar = Src(ctx, 'app/approot.rs').cut_tests().standard()
    ar.sub(r'\basync fn\b', 'fn', 'R10')
    ar.sub(r'\.await\b', '', 'R10')
    ar.only(items)
    ar.sub(r'(?ms)^use [^;]*;\n', '', 'select')
    ar.replace("for (sec, mut sec_txs) in txs_by_sec {", "let __ents = hole_map_entries(txs_by_sec);\n    for (sec, mut sec_txs) in __ents {", 'H')
    # syntactic obligation (not a Verus proof): once the rows are read, no `?` / `return` may leave the function --
    # a bookkeeping or split error of one security has to stay that security's result (C08, C04)
    from vx.lex import lex
    txt = ar.text()
    k = txt.find('let __ents = hole_map_entries(txs_by_sec);')
    e = txt.find('\n}\n', k)                     # end of the (top-level) function
    tail = [t[1] for t in lex(txt[k:e if e >= 0 else len(txt)])] if k >= 0 else ['?']
    # the final `Ok(delta_results)` is the tail expression; any `?` or `return` after the partition is an escape
    if '?' in tail or 'return' in tail:
        ctx.lints.append(dict(tags=['C08', 'C04'], function='app::approot::fn run_acb_app_to_delta_models',
                              label='per-security phase has no early exit: an error of one security stays its own result',
                              message='a `?` or `return` occurs after the rows have been partitioned per security; one '
                                      'security\'s error would abort the whole run'))
    return ar


def input_parse_part(ctx):
    """app/input_parse.rs: parse_initial_status (-b SYM:shares:acb); splitting / trimming / number syntax are stand-ins"""
    ip = Src(ctx, 'app/input_parse.rs').cut_tests().standard()
    ip.sub(r'(?ms)^use [^;]*;\n', '', 'select')
    ip.replace('let mut parts: Vec<String> = opt.split(":").map(|s| s.to_string()).collect();',
               'let mut parts: Vec<String> = hole_split_colon(opt);', 'H')
    ip.replace('let symbol = parts.pop().unwrap().trim().to_string();', 'let symbol = hole_trim_string(parts.pop().unwrap());', 'H')
    use = ("use std::collections::HashMap;\nuse crate::rust_decimal::Decimal;\nuse crate::portfolio::{PortfolioSecurityStatus, Security};\n"
           "use crate::util::decimal::GreaterEqualZeroDecimal;\n")
    return mod('input_parse', use + ip.text())


def build(ctx):
    p = bk.parts(ctx)
    f = fxu.fx_parts(ctx)
    import units.ord as ordu
    o = ordu.ord_parts(ctx)
    ar = approot_src(ctx, ['type Error', 'fn run_acb_app_to_delta_models'])
    app = mod('app', mod('approot', APP_USE + ar.text()) + input_parse_part(ctx))
    stubs = open(os.path.join(os.path.dirname(os.path.dirname(os.path.abspath(__file__))), 'shim', 'util_stubs.rs')).read()
    head = shim('base', 'std').replace('verus! {\n/// Trusted contracts for std', fxu.MACROS + 'verus! {\n/// Trusted contracts for std', 1)
    return (head + "verus! {\n"
            + bk.assemble(p, extra_util=stubs,
                          extra_portfolio=mod('io', mod('tx_loader', f['txl']) + tx_csv_part(ctx))
                          + o['mods'],
                          extra_top=f['fx'] + app)
            + "} // verus!\nfn main() {}\n")


def OVERLAY_SPLIT(op):
    if 'mod input_parse' in op['path']:
        return 'inp'
    if 'mod app' in op['path'] or 'mod tx_csv' in op['path']:
        return 'drv'
    return fxu.OVERLAY_SPLIT(op) if fxu.OVERLAY_SPLIT(op) == 'fx' else ('ord' if ('mod misc' in op['path'] or 'mod splits' in op['path']) else 'bk')


TAG_RULES = [
    (r'input_parse::', ['C16']),
    (r'approot::', ['C07', 'C08', 'C16', 'C04']),
] + bk.TAG_RULES
