"""unit agg: portfolio/cumulative_gains.rs + get_cumulative_capital_gains of app/approot.rs on the bk base"""
from vx.build import Src, mod, shim
import units.bk as bk

NAME = 'agg'
OVERLAYS = ['bk', 'agg']
VERUS_FLAGS = ['--no-lifetime']
VERIFY_MODULES = ['portfolio::cumulative_gains', 'app::approot']


def build(ctx):
    p = bk.parts(ctx)
    cg = Src(ctx, 'portfolio/cumulative_gains.rs').cut_tests().standard()
    cg.replace("self.capital_gains_years_totals.keys().copied().collect();", "hole_year_keys(&self.capital_gains_years_totals);", 'H')
    cg.replace("for gains in sec_gains.values() {", "let __it1 = hole_values(sec_gains);\n    for gains in __it1 {", 'H')
    cg.replace("for (year, year_gains) in &gains.capital_gains_years_totals {",
               "let __it2 = gains.capital_gains_years_totals.iter();\n        for (year, year_gains) in __it2 {", 'R18')
    ar = Src(ctx, 'app/approot.rs').cut_tests().standard()
    ar.only(['struct AllCumulativeCapitalGains', 'fn get_cumulative_capital_gains'])
    ar.sub(r'(?ms)^use [^;]*;\n', '', 'select')
    ar.replace("for (sec, deltas_res) in deltas_by_sec {", "let __it1 = deltas_by_sec.iter();\n    for (sec, deltas_res) in __it1 {", 'R18')
    ar.replace("\nstruct AllCumulativeCapitalGains", "\npub struct AllCumulativeCapitalGains", 'R14')
    ar.replace("\nfn get_cumulative_capital_gains", "\npub fn get_cumulative_capital_gains", 'R14')
    app = mod('app', mod('approot', "use std::collections::HashMap;\nuse crate::portfolio::*;\nuse crate::portfolio::bookkeeping::*;\n" + ar.text()))
    return (shim('base', 'std') + "verus! {\n"
            + bk.assemble(p, extra_portfolio=mod('cumulative_gains', cg.text(), '') + "pub use self::cumulative_gains::*;\n", extra_top=app)
            + "} // verus!\nfn main() {}\n")


def OVERLAY_SPLIT(op):
    return 'agg' if ('mod cumulative_gains' in op['path'] or 'mod app' in op['path']) else 'bk'


TAG_RULES = [
    (r'cumulative_gains::fn calc_cumulative_capital_gains', ['C06', 'C08']),   # aggregate = sum over securities: adding a security changes it by that security's own totals
    (r'cumulative_gains::', ['C06']),
    (r'approot::', ['C08', 'C04', 'C06']),
] + bk.TAG_RULES
