"""unit fmv: the allocation-table state machine FmvParseSm of peripheral/questrade_statement_fmv_impl.rs (mod sm) and
parse_fmvs_from_page; regular expressions and `str` methods are stand-ins with uninterpreted meaning (shim/fmv_stubs.rs)"""
import os
from vx.build import Src, mod, shim, MARKER

NAME = 'fmv'
OVERLAYS = ['fmv']
VERUS_FLAGS = ['--no-lifetime']
VERIFY_MODULES = ['peripheral::fmv', 'peripheral::fmv::sm']
DEFAULT_TAGS = ['C20']


def build(ctx):
    s = Src(ctx, 'peripheral/questrade_statement_fmv_impl.rs').cut_tests().standard()
    s.only(['struct Fmv', 'mod sm', 'fn parse_fmvs_from_page', 'struct StatementFmvs', 'fn parse_statement_text'], why='abbreviations, rendering, threading and the CLI are string / pdf code')
    s.sub(r'(?ms)^\s*use [^;]*;\n', '', 'select')
    s.sub(r'(?ms)^    lazy_static! \{.*?^    \}\n', '', 'R25')       # the three regex tables -> crate::rex::ReId
    s.sub(r'\b(\w+_RE)\.(is_match|captures)\(', r'crate::rex::\2(crate::rex::ReId::\1, ', 'R25')
    s.sub(r'\b(\w+)\.contains\(', r'crate::rex::str_contains(\1, ', 'R26')       # str::contains(&str)
    s.sub(r'\b(\w+)\.trim\(\)\.is_empty\(\)', r'crate::rex::str_is_empty(crate::rex::trim(\1))', 'R26')
    s.sub(r'\b(\w+)\.trim\(\)', r'crate::rex::trim(\1)', 'R26')
    s.replace("for line in page.lines() {", "let __lines = crate::rex::lines(page);\n            for line in __lines {", 'H')
    s.replace("self.security_desc += format!(\" {}\", crate::rex::trim(line)).as_str();", "crate::rex::append_line(&mut self.security_desc, crate::rex::trim(line));", 'H')
    s.sub(r'm\.get\(1\)\.unwrap\(\)\.as_str\(\)\.to_string\(\)', 'crate::rex::to_string(m.get(1).unwrap().as_str())', 'R26')
    s.replace('        state: State,', '        pub state: State,', 'R14')
    s.replace('        security_desc: String,', '        pub security_desc: String,', 'R14')
    s.replace('    enum State {', '    pub enum State {', 'R14')
    # parse_statement_text: page selection and the month line
    s.sub(r"(?s)pub fn parse_statement_text<'a, I, T>\(pages: I\) -> Result<StatementFmvs, SError>\s*where\s*I: Iterator<Item = T>,\s*T: std::borrow::Borrow<String> \+ 'a,\s*\{",
          "pub fn parse_statement_text<'a>(pages: Vec<&'a String>) -> Result<StatementFmvs, SError>\n{", 'R35', required=True)
    s.sub(r'\bpage\.borrow\(\)', 'page.as_str()', 'R35', required=True)
    s.note('R35', 'generic page iterator `I: Iterator<Item = T>, T: Borrow<String>` -> `Vec<&String>` (the list of page texts), `page.borrow()` -> `page.as_str()`')
    s.sub(r'(?s)let current_month_re = RegexBuilder::new\(.*?\.unwrap\(\);', 'let current_month_re = crate::rex::ReId::CURRENT_MONTH_RE;', 'R25', required=True)
    s.sub(r'(?s)let fmv_page_marker =\s*Regex::new\(r"Securities\\s\+Owned\\s\+Combined\\s\+in\\s\+\\\(CAD\\\)"\)\.unwrap\(\);', 'let fmv_page_marker = crate::rex::ReId::FMV_PAGE_MARKER;', 'R25', required=True)
    s.replace('current_month_re.captures(page.as_str())', 'crate::rex::captures(current_month_re, page.as_str())', 'R25')
    s.replace('fmv_page_marker.is_match(page.as_str())', 'crate::rex::is_match(fmv_page_marker, page.as_str())', 'R25')
    s.sub(r'(?s)if let Ok\(month\) = parse_month\(m\.name\("month"\)\.unwrap\(\)\.as_str\(\)\) \{.*?\n                \}\n',
          'if let Some(d) = crate::rex::month_line_date(&m)? {\n                    month_date = Some(d);\n                }\n', 'H', required=True)
    s.for_continue_to_else()
    s.replace('let some_month = month_date.ok_or("Could not find month")?;', 'let some_month = hole_month_or_err(month_date)?;', 'H')
    s.replace('Err("Did not find FMVs in statement".to_string())', 'Err(crate::rex::to_string("Did not find FMVs in statement"))', 'R26')
    s.ext_fn('security_text_to_fmv', why='regex groups + decimal parsing of one security text; contract: a function of the text')
    inner_use = "use crate::rust_decimal::Decimal;\nuse crate::util::basic::SError;\nuse crate::time::Date;\nuse vstd::std_specs::iter::IteratorSpec;\n"
    body = inner_use + s.text().replace("mod sm {\n", "pub mod sm {\nuse vstd::prelude::*;\nuse crate::rust_decimal::Decimal;\nuse crate::util::basic::SError;\nuse super::Fmv;\n", 1)
    d = os.path.join(os.path.dirname(os.path.dirname(os.path.abspath(__file__))), 'shim')
    head = shim('base', 'std').replace(MARKER, '') + open(os.path.join(d, 'fmv_stubs.rs')).read() + MARKER
    return head + "verus! {\n" + mod('peripheral', mod('fmv', body)) + "} // verus!\nfn main() {}\n"


TAG_RULES = [(r'fmv::', ['C20'])]
