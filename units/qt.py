"""unit qt: questrade::sheet_to_txs (peripheral/broker/questrade.rs) on top of unit conv (FxTracker, BrokerTx).
The xlsx layer, regular expressions and string helpers are stand-ins (shim/xl_stubs.rs); the immediately-invoked closure
that handles one row becomes a function of its own (R29), its body unchanged but for the dereference of the captured counter."""
import os, re
from vx.build import Src, mod, shim, MARKER, BuildError
import units.bk as bk
import units.conv as convu

NAME = 'qt'
OVERLAYS = ['bk', 'conv', 'qt']
VERUS_FLAGS = ['--no-lifetime']
VERIFY_MODULES = ['peripheral::broker::questrade']

ROW_FN_SIG = ("fn row_body(\n    row_num: &mut usize,\n    reader: &mut crate::xl::SheetReader,\n    row: crate::xl::Row,\n"
              "    allowed_actions: &crate::xl::StrSet,\n    ignored_actions: &crate::xl::StrSet,\n    fx_tracker: &mut FxTracker,\n"
              "    txs: &mut Vec<BrokerTx>,\n    fpath: Option<&crate::xl::Path>,\n) -> Result<(), SheetParseError> {\n")
ROW_CALL = "let row_res = row_body(&mut row_num, &mut reader, row, &allowed_actions, &ignored_actions, &mut fx_tracker, &mut txs, fpath);"


def iife_to_fn(q):
    s = q.s
    a = s.find('        let row_res = (|| {\n')
    e = s.find('        })();\n', a)
    if a < 0 or e < 0 or s.count('let row_res = (|| {') != 1:
        raise BuildError('%s: the immediately-invoked row closure was not found exactly once (R29)' % q.path)
    body = s[a + len('        let row_res = (|| {\n'):e]
    # the captured counter is passed by reference: every use is dereferenced (struct shorthand spelt out)
    if body.count('let fxt_row = FxtRow {\n                    row_num,') != 1:
        raise BuildError('%s: struct shorthand `row_num,` of FxtRow not found (R29)' % q.path)
    body = body.replace('let fxt_row = FxtRow {\n                    row_num,', 'let fxt_row = FxtRow {\n                    __ROWNUM_FIELD__: __ROWNUM__,')
    body = re.sub(r'\brow_num\b(?!\s*:)', '(*row_num)', body)
    body = body.replace('__ROWNUM_FIELD__', 'row_num').replace('__ROWNUM__', '(*row_num)')
    body = re.sub(r'(?m)^    ', '', body)     # one level less of indentation
    q.s = s[:a] + '        ' + ROW_CALL + '\n' + s[e + len('        })();\n'):] + '\n' + ROW_FN_SIG + body + '}\n'
    q.note('R29', 'immediately-invoked closure `(|| { .. })()` of the row loop -> fn row_body(captured variables as parameters); '
                  'body unchanged except `row_num` -> `(*row_num)`')


def str_match_to_if(q, head):
    """R30: `match X.as_str() { "A" => E1, "B" => { .. } _ => { .. } }` -> if / else-if chain over crate::xl::str_eq(X.as_str(), "A")
    (Verus gives string-literal patterns no meaning); arms and their order are kept"""
    s = q.s
    a = s.find(head)
    if a < 0 or s.count(head) != 1:
        raise BuildError('%s: pinned match header for R30 not found exactly once: %r' % (q.path, head))
    m = re.match(r'(.*?)match (\w+)\.as_str\(\) \{$', head, re.S)
    prefix, var = m.group(1), m.group(2)
    i = a + len(head)
    arms = []
    n = len(s)
    while True:
        while s[i].isspace():
            i += 1
        if s[i] == '}':
            end = i + 1
            break
        mm = re.match(r'("(?:[^"\\]|\\.)*"|_)\s*=>\s*', s[i:])
        if not mm:
            raise BuildError('%s: R30 cannot read a match arm at %r' % (q.path, s[i:i + 40]))
        pat = mm.group(1)
        i += mm.end()
        if s[i] == '{':
            depth = 0
            j = i
            while True:
                if s[j] == '{':
                    depth += 1
                elif s[j] == '}':
                    depth -= 1
                    if depth == 0:
                        break
                j += 1
            body = s[i:j + 1]
            i = j + 1
            if s[i] == ',':
                i += 1
        else:
            j = s.index(',', i)
            body = '{ ' + s[i:j] + ' }'
            i = j + 1
        arms.append((pat, body))
    if not arms or arms[-1][0] != '_':
        raise BuildError('%s: R30 expects a final `_` arm' % q.path)
    out = prefix
    for k, (pat, body) in enumerate(arms):
        if pat == '_':
            out += 'else ' + body
        else:
            out += ('if ' if k == 0 else 'else if ') + 'crate::xl::str_eq(%s.as_str(), %s) %s ' % (var, pat, body)
    q.s = s[:a] + out + s[end:]
    q.note('R30', 'match on string literals -> if / else-if chain over crate::xl::str_eq (same arms, same order)')


def build(ctx, extra_per='', extra_util='', extra_portfolio='', extra_top='', extra_head='', macros=''):
    p = bk.parts(ctx)
    fxt = Src(ctx, 'peripheral/broker/fx_tracker.rs').cut_tests().standard()
    fxt.replace("use crate::rust_decimal::{prelude::One, Decimal};", "use crate::rust_decimal::Decimal;", 'R1')
    fxt.replace("Decimal::one()", "crate::rust_decimal::dec_lit(Ghost(1real))", 'R2', count=0)
    fxt.replace('currency.as_str().to_string() + ".FX"', 'crate::fmt_stub()', 'H')
    btx = Src(ctx, 'peripheral/broker/broker_tx.rs').cut_tests().standard()
    btx.strip_derive('BrokerTx', 'Clone')
    sc = Src(ctx, 'peripheral/sheet_common.rs').cut_tests().standard()
    sc.only(['struct SheetParseError', 'impl SheetParseError'])
    br = Src(ctx, 'peripheral/broker.rs').cut_tests().standard()
    br.only(['struct SheetToTxsErr'])
    q = Src(ctx, 'peripheral/broker/questrade.rs').cut_tests().standard()
    q.sub(r'(?ms)^use [^;]*;\n', '', 'select')
    q.sub(r'(?ms)^lazy_static! \{.*?^\}\n', '', 'R25')
    q.ext_fn('convert_date_str', why='regex + date parsing; a function of the text')
    q.sub(r'(?s)let symbol_aliases =\s*HashMap::<[^;]*?\]\);', 'let symbol_aliases = crate::xl::StrSet { s: Ghost(Set::empty()) };', 'H', required=True)
    q.sub(r'(?s)let ignored_actions: HashSet<&\'static str> = HashSet::from_iter\(\s*vec!\[\s*"BRW", "TFI", "TF6", "MGR", "DEP", "NAC", "CON", "INT", "EFT", "RDM", "",\s*\]\s*\.into_iter\(\),\s*\);',
          'let ignored_actions = hole_ignored_actions();', 'H', required=True)
    q.sub(r'(?s)let allowed_actions: HashSet<&\'static str> = HashSet::from_iter\(\s*vec!\["BUY", "SELL", "DIS", "LIQ", "FXT", "DIV"\]\.into_iter\(\),\s*\);',
          'let allowed_actions = hole_allowed_actions();', 'H', required=True)
    q.replace("crate::peripheral::excel::SheetReader::new(&mut rows)", "crate::xl::SheetReader::new(&mut rows)", 'R1')
    q.replace("for row in sheet.rows() {", "let __rows = crate::xl::rows_vec(sheet);\n    for row in __rows {", 'H')
    iife_to_fn(q)
    q.sub(r'(?s)(?:crate::)?regex::RegexBuilder::new\(r"rrsp\|tfsa\|resp"\)\s*\.case_insensitive\(true\)\s*\.build\(\)\s*\.unwrap\(\)\s*\.is_match\(&account\.account_type\)',
          'crate::xl::is_registered_account_type(&account.account_type)', 'H', required=True)
    q.replace("let action_str: String = action_str_raw.to_uppercase();", "let action_str: String = crate::xl::to_upper(&action_str_raw);", 'R26')
    q.replace('if reader.get_str("Currency")?.to_uppercase() == "USD" {', 'if crate::xl::to_upper(&reader.get_str("Currency")?) == "USD" {', 'R26')
    str_match_to_if(q, "let action = match action_str.as_str() {")
    q.sub(r'\b(\w+) == ("[A-Z]+")', r'crate::xl::str_eq(\1.as_str(), \2)', 'R30')     # String == "LIT"
    q.replace('if crate::xl::to_upper(&reader.get_str("Currency")?) == "USD" {', 'if crate::xl::str_eq(crate::xl::to_upper(&reader.get_str("Currency")?).as_str(), "USD") {', 'R30', required=False)
    q.sub(r'(?s)let \(symbol, orig_symbol_note\) = if let Some\(\(alias, aka\)\) =\s*symbol_aliases\.get\(pre_alias_symbol\.as_str\(\)\)\s*\{.*?\} else \{\s*\(pre_alias_symbol, String::new\(\)\)\s*\};',
          'let (symbol, orig_symbol_note) = hole_symbol_alias(pre_alias_symbol);', 'H', required=True)
    q.replace("memo: account_memo + &orig_symbol_note + &converted_action_note,", "memo: hole_memo(account_memo, &orig_symbol_note, &converted_action_note),", 'H')
    q.replace("filename: fpath.map(|p| p.to_string_lossy().to_string()),", "filename: crate::xl::path_string(fpath),", 'H')
    q.sub(r'(?s)let mut fx_txs: Vec<BrokerTx> = (match fx_tracker\.get_fx_txs\(\) \{.*?\n    \})\s*\.iter\(\)\s*\.map\(\|t\| \(\*t\)\.clone\(\)\)\s*\.collect\(\);',
          r'let mut fx_txs: Vec<BrokerTx> = hole_clone_txs(\1);', 'H', required=True)
    q.replace("sheet: &Range,", "sheet: &crate::xl::Range,", 'R1')
    q.replace("fpath: Option<&std::path::Path>,", "fpath: Option<&crate::xl::Path>,", 'R1')
    use_q = ("use crate::peripheral::broker::{Account, BrokerTx, FxTracker, FxtRow, SheetToTxsErr};\nuse crate::peripheral::sheet_common::SheetParseError;\n"
             "use crate::portfolio::{Affiliate, Currency, TxAction};\nuse crate::util::basic::SError;\nuse crate::time::Date;\nuse crate::rust_decimal::Decimal;\nuse vstd::std_specs::iter::IteratorSpec;\n")
    per = (mod('sheet_common', sc.text())
           + mod('broker', mod('broker_tx', btx.text(), '') + mod('fx_tracker', fxt.text(), '')
                 + "pub use self::broker_tx::*;\npub use self::fx_tracker::*;\n" + br.text() + mod('questrade', use_q + q.text())) + extra_per)
    d = os.path.join(os.path.dirname(os.path.dirname(os.path.abspath(__file__))), 'shim')
    head = shim('base', 'std').replace(MARKER, '') + open(os.path.join(d, 'xl_stubs.rs')).read() + extra_head + MARKER
    if macros:
        head = head.replace('verus! {\n/// Trusted contracts for std', macros + 'verus! {\n/// Trusted contracts for std', 1)
    return (head + "verus! {\n" + bk.assemble(p, extra_util=extra_util, extra_portfolio=extra_portfolio, extra_top=mod('peripheral', per) + extra_top)
            + "} // verus!\nfn main() {}\n")


def OVERLAY_SPLIT(op):
    if 'mod questrade' in op['path'] or op.get('before_item') in ('struct SheetToTxsErr', 'mod questrade'):
        return 'qt'
    return convu.OVERLAY_SPLIT(op)


TAG_RULES = [
    (r'peripheral::', ['C18']),
] + bk.TAG_RULES
