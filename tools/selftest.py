#!/usr/bin/env python3
"""apply each mutant of selftest/mutants.json to a scratch worktree of /repo (removed afterwards) and run the property's check
against it (VERIF_REPO); property-breaking mutants must give VIOLATION, benign ones exit 0. Not a registered command."""
import json, os, subprocess, sys, shutil, tempfile
ROOT = os.path.dirname(os.path.dirname(os.path.abspath(__file__)))
only = sys.argv[1:]
wt = tempfile.mkdtemp(prefix='vx_selftest_', dir='/tmp')
os.rmdir(wt)
subprocess.run(['git', '-C', '/repo', 'worktree', 'add', '-q', '--detach', wt, 'HEAD'], check=True)
res = []
try:
    for m in json.load(open(os.path.join(ROOT, 'selftest', 'mutants.json'))):
        if m['expect'] == 'skip' or (only and m['id'] not in only and m['prop'] not in only):
            continue
        subprocess.run(['git', '-C', wt, 'checkout', '-q', '--', '.'], check=True)
        p = os.path.join(wt, m['file'])
        s = open(p).read()
        if s.count(m['old']) != m.get('count', 1):
            res.append((m['id'], 'SETUP-ERROR: old text occurs %d times' % s.count(m['old'])))
            continue
        open(p, 'w').write(s.replace(m['old'], m['new']))
        env = dict(os.environ, VERIF_REPO=wt, VERIF_NO_WITNESS='1', VERIF_NO_CANARY='1')
        r = subprocess.run([os.path.join(ROOT, 'check'), m['prop']], env=env, stdout=subprocess.PIPE, stderr=subprocess.STDOUT)
        out = r.stdout.decode()
        got = 'violation' if (r.returncode == 1 and 'VIOLATION property=%s' % m['prop'] in out) else ('ok' if r.returncode == 0 else 'undecided')
        line = [l for l in out.splitlines() if l.startswith(('VIOLATION', 'UNDECIDED', '  obligation'))][:2]
        res.append((m['id'], ('PASS' if got == m['expect'] else 'FAIL') + ' expected %s got %s %s' % (m['expect'], got, ' | '.join(line)[:230])))
        print(res[-1][0], res[-1][1], flush=True)
finally:
    subprocess.run(['git', '-C', '/repo', 'worktree', 'remove', '--force', wt])
    shutil.rmtree(wt, ignore_errors=True)
bad = [r for r in res if not r[1].startswith('PASS')]
print('%d mutants, %d not as expected' % (len(res), len(bad)))
sys.exit(1 if bad else 0)
