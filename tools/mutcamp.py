#!/usr/bin/env python3
"""small mutation campaign (not a registered command): single-token mutants of the functions under contract, kept only if the
crate still compiles and the existing 122 tests still pass, then judged by the property checks.  Output: .work/mutcamp.jsonl
usage: tools/mutcamp.py <max mutants per file> [file substring]"""
import json, os, random, re, subprocess, sys, time
ROOT = os.path.dirname(os.path.dirname(os.path.abspath(__file__)))
sys.path.insert(0, ROOT)
WT = '/tmp/mc'
TGT = '/tmp/mc_target'
from tools.mutcamp_files import FILES
OPS = [
    (r' <= ', ' < '), (r' < ', ' <= '), (r' >= ', ' > '), (r' > ', ' >= '), (r' == ', ' != '), (r' != ', ' == '),
    (r' \+ ', ' - '), (r' - ', ' + '), (r' && ', ' || '), (r' \|\| ', ' && '),
    (r'\bif !', 'if '), (r'\.is_some\(\)', '.is_none()'), (r'\.is_none\(\)', '.is_some()'),
    (r'\+= 1\b', '+= 2'), (r'\b30\b', '31'), (r'\.rev\(\)', ''),
    (r'\btrue\b', 'false'), (r'\bfalse\b', 'true'), (r' \* ', ' + '), (r'\b1\b', '2'), (r'\b0\b', '1'),
    (r'\.abs\(\)', ''), (r'\bSome\((\w+)\)$', 'None'), (r' / ', ' * '),
]


def sh(cmd, cwd=None, env=None, timeout=3600):
    e = dict(os.environ, CARGO_NET_OFFLINE='true', CARGO_TARGET_DIR=TGT)
    if env:
        e.update(env)
    p = subprocess.run(cmd, shell=True, cwd=cwd, env=e, stdout=subprocess.PIPE, stderr=subprocess.STDOUT, timeout=timeout)
    return p.returncode, p.stdout.decode(errors='replace')


def code_lines(text):
    """indices of lines that are code outside #[cfg(test)] modules, not comments, not inside format strings"""
    lines = text.split('\n')
    out = []
    cut = len(lines)
    for i, l in enumerate(lines):
        if re.match(r'\s*#\[cfg\(test\)\]', l) or '// MARK: tests' in l.lower() or '// mark: tests' in l.lower():
            cut = i
            break
    for i in range(cut):
        s = lines[i].strip()
        if not s or s.startswith('//') or s.startswith('#[') or s.startswith('use ') or ('"' in s and os.environ.get('MUTCAMP_MODE', 'token') == 'token') or 'tracing::' in s or 'debug!' in s or 'trace!' in s:
            continue
        out.append(i)
    return lines, out


def main():
    per_file = int(sys.argv[1]) if len(sys.argv) > 1 else 5
    only = sys.argv[2] if len(sys.argv) > 2 else ''
    random.seed(int(os.environ.get('MUTCAMP_SEED', '20260928')))
    if not os.path.isdir(WT):
        subprocess.run(['git', '-C', '/repo', 'worktree', 'add', '-q', '--detach', WT, 'HEAD'], check=True)
    outp = os.path.join(ROOT, '.work', 'mutcamp.jsonl')
    for f, props in FILES.items():
        if only and only not in f:
            continue
        subprocess.run(['git', '-C', WT, 'checkout', '-q', '--', '.'], check=True)
        text = open(os.path.join(WT, f)).read()
        lines, idx = code_lines(text)
        cands = []
        mode = os.environ.get('MUTCAMP_MODE', 'token')
        for i in idx:
            if mode == 'delete':
                st = lines[i].strip()
                # whole-statement deletion: single-line statements that are not declarations
                if st.endswith(';') and not st.startswith(('let ', 'return', 'use ', 'pub ', 'const ', 'break', 'continue')) and st.count('(') == st.count(')'):
                    cands.append((i, -1, 0, len(lines[i])))
                continue
            for k, (pat, rep) in enumerate(OPS):
                for m in re.finditer(pat, lines[i]):
                    cands.append((i, k, m.start(), m.end()))
        random.shuffle(cands)
        done = 0
        tried = 0
        for (i, k, a, b) in cands:
            if done >= per_file or tried >= 6 * per_file:
                break
            tried += 1
            new_line = '' if k == -1 else lines[i][:a] + OPS[k][1] + lines[i][b:]
            mutated = '\n'.join(lines[:i] + [new_line] + lines[i + 1:])
            open(os.path.join(WT, f), 'w').write(mutated)
            t0 = time.time()
            rc, out = sh('cargo test --workspace --no-fail-fast --offline 2>&1 | grep -E "^test result|^test .* FAILED|^error" ', cwd=WT)
            failed = [m.group(1) for m in (re.match(r'^test (\S+) \.\.\. FAILED', l) for l in out.splitlines()) if m]
            compile_err = any(l.startswith('error[E') or 'could not compile' in l for l in out.splitlines())
            rec = dict(file=f, line=i + 1, old=lines[i].strip(), new=new_line.strip(), test_s=round(time.time() - t0, 1))
            if compile_err:
                rec['status'] = 'does-not-compile'
            elif [x for x in failed if x != 'test_sample_csv_file_validity']:
                rec['status'] = 'killed-by-tests'
                rec['failed'] = failed[:3]
            else:
                rec['status'] = 'survives-tests'
                res = {}
                for p in props:
                    r = subprocess.run([os.path.join(ROOT, 'check'), p], env=dict(os.environ, VERIF_REPO=WT, VERIF_NO_WITNESS='1', VERIF_NO_CANARY='1'),
                                       stdout=subprocess.PIPE, stderr=subprocess.STDOUT)
                    res[p] = r.returncode
                    if r.returncode == 1:
                        rec['violation_line'] = [l for l in r.stdout.decode().splitlines() if l.startswith('  obligation')][:1]
                        break
                rec['checks'] = res
                rec['verdict'] = 'VIOLATION' if 1 in res.values() else ('UNDECIDED' if 2 in res.values() else 'OK')
                done += 1
            open(outp, 'a').write(json.dumps(rec) + '\n')
            print(rec['status'], rec.get('verdict', ''), f, i + 1, rec['new'][:90], flush=True)
            open(os.path.join(WT, f), 'w').write(text)


main()
