#!/usr/bin/env python3
"""re-run the checks recorded for every seeded change against /repo with the patch applied (then reverted);
updates seeded/<name>/meta.json (keeps the independent confirmation, replaces the check results)"""
import json, os, subprocess, sys, time
ROOT = os.path.dirname(os.path.dirname(os.path.abspath(__file__)))
names = sys.argv[1:] or sorted(os.listdir(os.path.join(ROOT, 'seeded')))
for n in names:
    d = os.path.join(ROOT, 'seeded', n)
    m = json.load(open(os.path.join(d, 'meta.json')))
    props = list(m['checks_run_against_repo_with_patch_applied'].keys())
    if m['property'] not in props:
        props.insert(0, m['property'])
    st = subprocess.run(['git', '-C', '/repo', 'status', '--porcelain', '--', 'src'], capture_output=True, text=True).stdout
    assert not st.strip(), '/repo dirty'
    subprocess.run(['git', '-C', '/repo', 'apply', os.path.join(d, 'patch.diff')], check=True)
    res = {}
    try:
        for p in props:
            t0 = time.time()
            r = subprocess.run(['./check', p, '--tier', 'quick'], cwd=ROOT, env=dict(os.environ, VERIF_NO_CANARY='1'),
                               stdout=subprocess.PIPE, stderr=subprocess.STDOUT)
            out = r.stdout.decode()
            lines = [l for l in out.splitlines() if l.startswith(('VIOLATION', 'UNDECIDED', 'KNOWN-FINDING', 'OK', '  obligation'))]
            res[p] = {'exit': r.returncode, 'lines': lines[:8], 'wall_s': round(time.time() - t0, 1)}
    finally:
        subprocess.run(['git', '-C', '/repo', 'checkout', '--', '.'])
    m['checks_run_against_repo_with_patch_applied'] = res
    m['detected_by'] = [p for p, r in res.items() if r['exit'] == 1]
    json.dump(m, open(os.path.join(d, 'meta.json'), 'w'), indent=1)
    print(n, {p: r['exit'] for p, r in res.items()}, flush=True)
