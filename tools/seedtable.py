#!/usr/bin/env python3
"""print the markdown table of DESIGN.md section 7 from seeded/*/meta.json (results of tools/reseed.py)"""
import json, os, re
ROOT = os.path.dirname(os.path.dirname(os.path.abspath(__file__)))
print('| seed | change (one line) | own check | other checks run |')
print('|------|-------------------|-----------|------------------|')
word = {0: 'exit 0 (missed)', 1: 'VIOLATION', 2: 'UNDECIDED'}
for n in sorted(os.listdir(os.path.join(ROOT, 'seeded'))):
    m = json.load(open(os.path.join(ROOT, 'seeded', n, 'meta.json')))
    res = m['checks_run_against_repo_with_patch_applied']
    own = res.get(m['property'], {}).get('exit')
    others = ', '.join('%s %s' % (p, word[r['exit']]) for p, r in res.items() if p != m['property'])
    s = re.sub(r'\s+', ' ', m['summary']).replace('|', '/')
    s = s if len(s) < 150 else s[:147] + '...'
    print('| %s | %s | %s | %s |' % (n, s, '**%s**' % word[own] if own == 1 else word.get(own, '-'), others or '-'))
