#!/bin/sh
# run every claimed check (quick tier by default) on the current /repo tree, 4 at a time; validates the evidence files
cd "$(dirname "$0")/.." || exit 2
TIER=${1:-quick}
IDS=$(python3 -c "import json; print(' '.join(c['property_id'] for c in json.load(open('MANIFEST.json'))['checks']))")
mkdir -p .work/logs
# build the witness binaries once, so that parallel checks do not all wait on cargo
(cd /repo && CARGO_NET_OFFLINE=true cargo build --offline --bins >/dev/null 2>&1)
echo $IDS | tr ' ' '\n' | xargs -P 4 -I{} sh -c "./check {} --tier $TIER > .work/logs/{}.log 2>&1; echo {} exit=\$? \$(tail -1 .work/logs/{}.log)"
python3-vt - <<'PY'
import json, jsonschema, glob
sch = json.load(open('/root/.vp/EVIDENCE.schema.json'))
bad = 0
for c in json.load(open('MANIFEST.json'))['checks']:
    f = c['evidence_file']
    try:
        d = json.load(open(f)); jsonschema.validate(d, sch)
        cov = d['coverage']
        if d['level'] == 'proof' and cov['obligations'] != cov['discharged']:
            print('EVIDENCE', f, 'discharged != obligations'); bad += 1
    except Exception as e:
        print('EVIDENCE', f, 'invalid:', str(e)[:200]); bad += 1
print('evidence files ok' if not bad else '%d evidence problems' % bad)
PY
