#!/usr/bin/env python3
"""run the property checks against behaviour-preserving refactorings (patch files), each applied to a scratch worktree:
a VIOLATION here is a false alarm.  usage: tools/refactor_eval.py <worktree> <patch.diff>...   (not a registered command)"""
import json, os, re, subprocess, sys
ROOT = os.path.dirname(os.path.dirname(os.path.abspath(__file__)))
sys.path.insert(0, ROOT)
from tools.mutcamp_files import FILES
wt = sys.argv[1]
for pf in sys.argv[2:]:
    subprocess.run(['git', '-C', wt, 'checkout', '-q', '--', 'src'], check=True)
    r = subprocess.run(['git', '-C', wt, 'apply', pf], capture_output=True, text=True)
    if r.returncode:
        print(pf, 'DOES-NOT-APPLY', r.stderr[:200]); continue
    files = re.findall(r'^\+\+\+ b/(\S+)', open(pf).read(), re.M)
    props = []
    for f in files:
        for p in FILES.get(f, []):
            if p not in props:
                props.append(p)
    res = {}
    lines = []
    for p in props:
        c = subprocess.run([os.path.join(ROOT, 'check'), p], env=dict(os.environ, VERIF_REPO=wt, VERIF_NO_WITNESS='1', VERIF_NO_CANARY='1'),
                           stdout=subprocess.PIPE, stderr=subprocess.STDOUT)
        res[p] = c.returncode
        if c.returncode:
            lines += [l[:260] for l in c.stdout.decode().splitlines() if l.startswith(('VIOLATION', 'UNDECIDED', '  obligation'))][:2]
    verdict = 'FALSE-ALARM' if 1 in res.values() else ('undecided' if 2 in res.values() else 'ok')
    print(os.path.basename(os.path.dirname(pf)) + '/' + os.path.basename(pf), verdict, res, ' | '.join(lines), flush=True)
    subprocess.run(['git', '-C', wt, 'checkout', '-q', '--', 'src'], check=True)
