#!/usr/bin/env python3
"""tools/seed.py <name> <agent worktree> <prop> [more props...]
Confirms a seeded property-breaking change independently and records how the checks react.
  1. in the worktree: with the change the existing suite passes and the demo fails; without it the demo passes
  2. copies patch.diff + demo + meta into /verif/seeded/<name>/
  3. applies the patch to /repo, runs ./check for the given properties, undoes it (git checkout -- .)
"""
import json, os, re, shutil, subprocess, sys, time
ROOT = os.path.dirname(os.path.dirname(os.path.abspath(__file__)))
name, wt, props = sys.argv[1], sys.argv[2], sys.argv[3:]
dst = os.path.join(ROOT, 'seeded', name)
os.makedirs(dst, exist_ok=True)


def sh(cmd, cwd=None, env=None, timeout=3600):
    e = dict(os.environ, CARGO_NET_OFFLINE='true')
    if env:
        e.update(env)
    p = subprocess.run(cmd, shell=True, cwd=cwd, env=e, stdout=subprocess.PIPE, stderr=subprocess.STDOUT, timeout=timeout)
    return p.returncode, p.stdout.decode(errors='replace')


meta = json.load(open(os.path.join(wt, 'meta.json')))
demo_cmd = meta['demo_cmd']
log = {}
# the patch as it is in the worktree now
rc, diff = sh('git diff -- src', cwd=wt)
open(os.path.join(dst, 'patch.diff'), 'w').write(diff)
assert diff.strip(), 'no source change in worktree'
tgt = {'CARGO_TARGET_DIR': os.path.join(wt, 'target')}
# 1a. suite with the change
rc, out = sh('cargo test --workspace --no-fail-fast --offline 2>&1 | grep -E "^test result|FAILED|^test .* FAILED" ', cwd=wt, env=tgt)
failed = [m.group(1) for m in (re.match(r'^test (\S+) \.\.\. FAILED', l) for l in out.splitlines()) if m]
demo_tests = set()
dp = os.path.join(wt, 'tests', 'seeded_demo.rs')
if os.path.exists(dp):
    demo_tests = set(re.findall(r'fn\s+(\w+)\s*\(', open(dp).read()))
passed = sum(int(m) for m in re.findall(r'(\d+) passed', out))
log['suite_with_change'] = {'passed': passed, 'failed_tests': failed}
suite_ok = all(f == 'test_sample_csv_file_validity' or f.split('::')[-1] in demo_tests for f in failed)
# 1b. demo with the change
rc_with, out_with = sh(demo_cmd, cwd=wt, env=tgt)
# 1c. demo without the change
# (never `git stash`: the stash is shared by all worktrees of a repository)
pf = os.path.join(dst, 'patch.diff')
rcx, ox = sh('git apply -R %s' % pf, cwd=wt)
assert rcx == 0, 'cannot revert patch in worktree: ' + ox
try:
    rc_without, out_without = sh(demo_cmd, cwd=wt, env=tgt)
finally:
    sh('git apply %s' % pf, cwd=wt)
log['demo_with_change_rc'] = rc_with
log['demo_without_change_rc'] = rc_without
log['demo_with_change_tail'] = out_with[-600:]
confirmed = suite_ok and rc_with != 0 and rc_without == 0
# copy the demo
for f in ('tests/seeded_demo.rs', 'demo.sh'):
    if os.path.exists(os.path.join(wt, f)):
        shutil.copy(os.path.join(wt, f), dst)
if os.path.isdir(os.path.join(wt, 'demo')):
    shutil.copytree(os.path.join(wt, 'demo'), os.path.join(dst, 'demo'), dirs_exist_ok=True)
# 3. checks against /repo with the patch applied
results = {}
rc, st = sh('git status --porcelain -- src', cwd='/repo')
assert not st.strip(), '/repo has uncommitted source changes'
rc, o = sh('git apply %s' % os.path.join(dst, 'patch.diff'), cwd='/repo')
assert rc == 0, 'patch does not apply to /repo: ' + o
try:
    for p in props:
        t0 = time.time()
        rc, out = sh('./check %s --tier quick' % p, cwd=ROOT, env={'VERIF_NO_CANARY': '1'})
        lines = [l for l in out.splitlines() if l.startswith(('VIOLATION', 'UNDECIDED', 'KNOWN-FINDING', 'OK', '  obligation'))]
        results[p] = {'exit': rc, 'lines': lines[:8], 'wall_s': round(time.time() - t0, 1)}
        print(p, rc, lines[:3])
finally:
    sh('git checkout -- .', cwd='/repo')
out_meta = {
    'property': meta.get('property'),
    'summary': meta.get('summary'),
    'needs': meta.get('needs'),
    'demo_cmd': demo_cmd,
    'author': 'independent sub-agent given only the property text and a scratch worktree',
    'confirmed_by_me': confirmed,
    'confirmation': log,
    'checks_run_against_repo_with_patch_applied': results,
    'detected_by': [p for p, r in results.items() if r['exit'] == 1],
}
json.dump(out_meta, open(os.path.join(dst, 'meta.json'), 'w'), indent=1)
print('confirmed' if confirmed else 'NOT CONFIRMED', log['suite_with_change'], 'demo rc with/without:', rc_with, rc_without)
print('detected by:', out_meta['detected_by'])
