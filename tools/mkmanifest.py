#!/usr/bin/env python3
"""writes MANIFEST.json from vx/props.py (claimed checks) and vx/na.py (not applicable)"""
import json, os, sys
ROOT = os.path.dirname(os.path.dirname(os.path.abspath(__file__)))
sys.path.insert(0, ROOT)
from vx import props as P
from vx.na import NOT_APPLICABLE, HOOK_COMMITS
checks = []
for pid in sorted(P.PROPS):
    c = P.PROPS[pid]
    checks.append({
        'property_id': pid,
        'quick_cmd': './check %s --tier quick' % pid,
        'thorough_cmd': './check %s --tier thorough' % pid,
        'evidence_file': '/verif/evidence/%s.json' % pid,
        'replay_cmd_template': './check %s --replay {path}' % pid,
        'engine': 'vx+verus',
        'level_claimed': {'category': c.get('level', 'proof'), 'text': c['level_text'], 'design_ref': c.get('design_ref', 'DESIGN.md section 4 ' + pid)},
        'level_note': c['level_note'],
        'technique': c['technique'],
    })
m = {
    'version': 1,
    'setup_cmd': 'python3 -m vx.selfcheck',
    'hooks': {'guard': 'acb_verif', 'enable': 'none needed: contracts live in /verif/overlays and are spliced into text extracted from /repo/src on every run; no source hook exists', 'baseline_off_cmd': 'cd /repo && cargo test --workspace --no-fail-fast --offline', 'source_commits': HOOK_COMMITS, 'add_only': True},
    'engines': [{'name': 'vx+verus', 'path': '/verif/vx', 'serves_properties': sorted(P.PROPS), 'kind_free_text': 'mechanical extractor + insert-only contract overlays + Verus 0.2026.09.13 (Z3) on the generated single-file crate; diagnostics mapped to labelled obligations'}],
    'checks': checks,
    'not_applicable': [{'property_id': k, 'reason': v} for k, v in sorted(NOT_APPLICABLE.items()) if k not in P.PROPS],
    'notes': 'exit 2 = UNDECIDED (extraction/anchor/front-end/timeout/vacuity), never printed as VIOLATION. Fix commits in /repo are listed in KNOWN_FINDINGS.txt as fixed: lines.',
}
json.dump(m, open(os.path.join(ROOT, 'MANIFEST.json'), 'w'), indent=1)
print('MANIFEST.json: %d checks, %d not applicable' % (len(checks), len(m['not_applicable'])))
