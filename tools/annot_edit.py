"""helpers for scripted edits of .work/<unit>.annot.rs: whitespace-insensitive replace"""
import re, sys, os
sys.path.insert(0, os.path.dirname(os.path.dirname(os.path.abspath(__file__))))
from vx.lex import lex


def ws_pattern(text):
    toks = [t[1] for t in lex(text)]
    return r'\s*'.join(re.escape(t) for t in toks)


class Annot:
    def __init__(self, unit):
        self.path = '/verif/.work/%s.annot.rs' % unit
        self.s = open(self.path).read()

    def rep(self, old, new, count=1):
        pat = ws_pattern(old)
        m = re.findall(pat, self.s)
        assert len(m) == count, ('matches', len(m), old[:80])
        self.s = re.sub(pat, lambda _m: new, self.s)
        return self

    def save(self):
        open(self.path, 'w').write(self.s)
