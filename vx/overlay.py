"""Insert-only overlays.

compile_overlay(raw, annotated) -> ops   (authoring time)
apply_overlay(raw', ops)        -> generated text + map of inserted ranges (every run)

An op never matches on a whole statement: item ops are addressed by item path,
token ops by item path + a window of neighbouring tokens, so changing an
expression of the repository does not move or lose an annotation.  The generated
file minus the inserted ranges is, token for token, the mechanically extracted
text (checked on every run by `verify_insert_only`).
"""
import re
import difflib
import json
from .lex import lex, texts
from .tree import Tree


class OverlayError(Exception):
    """authoring-time problem (annotated file is not raw + insertions)"""


class AnchorError(Exception):
    """run-time: an op cannot be placed on the current tree (=> undecided)"""


NMIN, NMAX = 8, 80


def _score(rt, b, before, after):
    s = 0
    nb = len(before)
    cont = True
    for i in range(1, nb + 1):
        if b - i >= 0 and rt[b - i] == before[nb - i]:
            s += 2 if cont else 1
        else:
            cont = False
    cont = True
    for i in range(len(after)):
        if b + i < len(rt) and rt[b + i] == after[i]:
            s += 2 if cont else 1
        else:
            cont = False
    return s


def _best(rt, before, after, hint=None):
    best, second, bi = -1, -1, None
    for b in range(len(rt) + 1):
        s = _score(rt, b, before, after)
        if s > best:
            second, best, bi = best, s, b
        elif s > second:
            second = s
    return bi, best, second


def _ctx(rt, i, n):
    return rt[max(0, i - n):i], rt[i:i + n]


def _choose_ctx(rt, i):
    n = NMIN
    while True:
        before, after = _ctx(rt, i, n)
        bi, best, second = _best(rt, before, after)
        full = 2 * (len(before) + len(after))
        if bi == i and best == full and second <= best - 8:
            return before, after
        if n >= NMAX or n >= len(rt):
            if bi == i and second < best:
                return before, after
            raise OverlayError('cannot find a unique context for token %d' % i)
        n *= 2


_OPEN = {'(': ')', '[': ']', '{': '}'}
_CLOSE = {')', ']', '}'}


def _balanced(toks):
    st = []
    for t in toks:
        if t in _OPEN:
            st.append(_OPEN[t])
        elif t in _CLOSE:
            if not st or st.pop() != t:
                return False
    return not st


def _slide(opcodes, rt, at):
    """difflib may match a repository bracket with a bracket inside an inserted contract, which splits one
    annotation over two insertions.  Where an insertion is not bracket-balanced, re-match the neighbouring
    repository token with an equal token inside the insertion so that the pieces become balanced."""
    ops = [list(o) for o in opcodes]
    k = 0
    guard = 0
    while k < len(ops) and guard < 5000:
        guard += 1
        o = ops[k]
        if o[0] != 'insert' or _balanced(at[o[3]:o[4]]):
            k += 1
            continue
        tag, i1, i2, j1, j2 = o
        cur = _imbalance(at[j1:j2])
        prev = ops[k - 1] if k > 0 else None
        nxt = ops[k + 1] if k + 1 < len(ops) else None
        best = None
        if prev and prev[0] == 'equal' and prev[4] > prev[3]:
            r = at[j1 - 1]
            for q in range(j2 - 1, j1 - 1, -1):
                if at[q] != r:
                    continue
                cost = _imbalance(at[j1 - 1:q]) + _imbalance(at[q + 1:j2])
                if cost < cur and (best is None or cost < best[0]):
                    best = (cost, 'prev', q)
        if nxt and nxt[0] == 'equal' and nxt[4] > nxt[3]:
            r = at[j2]
            for q in range(j1, j2):
                if at[q] != r:
                    continue
                cost = _imbalance(at[j1:q]) + _imbalance(at[q + 1:j2 + 1])
                if cost < cur and (best is None or cost < best[0]):
                    best = (cost, 'next', q)
        if best is None:
            k += 1
            continue
        _, side, q = best
        if side == 'prev':
            # repository token i1-1 now matches A[q]; A[j1-1:q] is inserted before it, A[q+1:j2] after it
            prev[2] -= 1
            prev[4] -= 1
            new = [['insert', i1 - 1, i1 - 1, j1 - 1, q], ['equal', i1 - 1, i1, q, q + 1], ['insert', i1, i1, q + 1, j2]]
            ops[k:k + 1] = new
        else:
            nxt[1] += 1
            nxt[3] += 1
            new = [['insert', i1, i1, j1, q], ['equal', i1, i1 + 1, q, q + 1], ['insert', i1 + 1, i1 + 1, q + 1, j2 + 1]]
            ops[k:k + 1] = new
        ops = [x for x in ops if not (x[0] == 'equal' and x[1] == x[2]) and not (x[0] == 'insert' and x[3] == x[4])]
        # merge adjacent inserts / equals
        m = []
        for x in ops:
            if m and m[-1][0] == x[0] and m[-1][2] == x[1] and m[-1][4] == x[3]:
                m[-1][2] = x[2]
                m[-1][4] = x[4]
            else:
                m.append(x)
        ops = m
        k = max(0, k - 2)
    return [tuple(o) for o in ops]


def _rebalance(opcodes, rt, at):
    """second pass after _slide: a chain  insert, equal(closers only), insert, ...  whose insertions are not balanced is
    re-split by a depth scan of the whole stretch of annotated tokens: a closer met at depth 0 cannot belong to an inserted
    (balanced) piece, so it is the repository's.  Applied only when the scan finds exactly the repository closers, in order."""
    ops = [list(o) for o in opcodes]
    out = []
    k = 0
    while k < len(ops):
        o = ops[k]
        if o[0] != 'insert' or _balanced(at[o[3]:o[4]]):
            out.append(o)
            k += 1
            continue
        # collect the chain
        chain = [o]
        e = k + 1
        while (e + 1 < len(ops) and ops[e][0] == 'equal' and all(t in _CLOSE for t in at[ops[e][3]:ops[e][4]])
               and ops[e + 1][0] == 'insert'):
            chain += [ops[e], ops[e + 1]]
            e += 2
            if _balanced([t for c in chain if c[0] == 'insert' for t in at[c[3]:c[4]]]):
                break
        if len(chain) == 1:
            out.append(o)
            k += 1
            continue
        j1, j2 = chain[0][3], chain[-1][4]
        repo_closers = [t for c in chain if c[0] == 'equal' for t in at[c[3]:c[4]]]
        depth = []
        found = []
        for q in range(j1, j2):
            t = at[q]
            if t in _OPEN:
                depth.append(_OPEN[t])
            elif t in _CLOSE:
                if depth and depth[-1] == t:
                    depth.pop()
                elif not depth:
                    found.append(q)
                else:
                    found = None
                    break
        if found is None or depth or [at[q] for q in found] != repo_closers:
            out.append(o)
            k += 1
            continue
        i = chain[0][1]
        pos = j1
        for q in found:
            if q > pos:
                out.append(['insert', i, i, pos, q])
            out.append(['equal', i, i + 1, q, q + 1])
            i += 1
            pos = q + 1
        if j2 > pos:
            out.append(['insert', i, i, pos, j2])
        k += len(chain)
    m = []
    for x in out:
        if m and m[-1][0] == x[0] == 'equal' and m[-1][2] == x[1] and m[-1][4] == x[3]:
            m[-1][2] = x[2]
            m[-1][4] = x[4]
        else:
            m.append(x)
    return [tuple(x) for x in m]


def _imbalance(toks):
    st = []
    bad = 0
    for t in toks:
        if t in _OPEN:
            st.append(_OPEN[t])
        elif t in _CLOSE:
            if st and st[-1] == t:
                st.pop()
            else:
                bad += 1
    return bad + len(st)


def _better(cand, cur):
    return _imbalance(cand) < _imbalance(cur)


def _line_groups(T, node):
    """token index ranges (relative to node.lo) of the source lines of a leaf"""
    groups = []
    cur_line = None
    for k in range(node.lo, node.hi):
        ln = T.text.count('\n', 0, T.toks[k][2]) if cur_line is None else cur_line + T.text.count('\n', T.toks[k - 1][2], T.toks[k][2])
        if cur_line is None or ln != cur_line:
            groups.append([k - node.lo, k - node.lo + 1])
        else:
            groups[-1][1] = k - node.lo + 1
        cur_line = ln
    return groups


def _two_level_opcodes(R, rn, A, an, rt, at):
    """align whole source lines first (repository lines survive verbatim in the annotated text), then diff tokens
    inside the changed hunks only; keeps repository brackets from being matched with brackets of a contract"""
    rg, ag = _line_groups(R, rn), _line_groups(A, an)
    rl = [tuple(rt[a:b]) for a, b in rg]
    al = [tuple(at[a:b]) for a, b in ag]
    out = []
    sm = difflib.SequenceMatcher(None, rl, al, autojunk=False)
    for tag, i1, i2, j1, j2 in sm.get_opcodes():
        ri1 = rg[i1][0] if i1 < len(rg) else len(rt)
        ri2 = rg[i2 - 1][1] if i2 > i1 else ri1
        aj1 = ag[j1][0] if j1 < len(ag) else len(at)
        aj2 = ag[j2 - 1][1] if j2 > j1 else aj1
        if tag == 'equal':
            out.append(('equal', ri1, ri2, aj1, aj2))
            continue
        sub = difflib.SequenceMatcher(None, rt[ri1:ri2], at[aj1:aj2], autojunk=False)
        for t2, a1, a2, b1, b2 in sub.get_opcodes():
            out.append((t2, ri1 + a1, ri1 + a2, aj1 + b1, aj1 + b2))
    # merge neighbours of the same kind
    merged = []
    for o in out:
        if merged and merged[-1][0] == o[0] and merged[-1][2] == o[1] and merged[-1][4] == o[3]:
            merged[-1] = (o[0], merged[-1][1], o[2], merged[-1][3], o[4])
        else:
            merged.append(o)
    return _rebalance(_slide(merged, rt, at), rt, at)


def _leaf_ops(R, rn, A, an, path, allow_subst, errs):
    rt = texts(R.toks[rn.lo:rn.hi])
    at = texts(A.toks[an.lo:an.hi])
    if rt == at:
        return []
    ops = []
    for tag, i1, i2, j1, j2 in _two_level_opcodes(R, rn, A, an, rt, at):
        if tag == 'equal':
            continue
        # inserted text: from the end of the previous A token to the end of the last new one
        if j2 > j1:
            t0 = A.toks[an.lo + j1 - 1][3] if j1 > 0 else A.toks[an.lo][2]
            t1 = A.toks[an.lo + j2 - 1][3]
            new = A.text[t0:t1]
        else:
            new = ''
        before, after = _choose_ctx(rt, i1)
        if tag == 'insert':
            ops.append({'op': 'tok', 'path': list(path), 'before': before, 'after': after,
                        'text': new})
        else:
            if not allow_subst:
                errs.append('%s: annotated text %ss repository tokens %r (-> %r); '
                                   'make this a named rewrite or a subst'
                                   % ('/'.join(path), tag, ' '.join(rt[i1:i2]), new.strip()[:80]))
                continue
            ops.append({'op': 'subst', 'path': list(path), 'before': before, 'after': after,
                        'old': rt[i1:i2], 'text': new})
    return ops


def _cont_ops(R, rn, A, an, path, allow_subst, errs):
    ops = []
    akeys = [c.key for c in an.children]
    amap = {c.key: c for c in an.children}
    last = -1
    for c in rn.children:
        if c.key not in amap:
            errs.append('%s: item %r of the raw unit is missing in the annotated file'
                               % ('/'.join(path), c.key))
            continue
        k = akeys.index(c.key)
        if k < last:
            raise OverlayError('%s: item %r is out of order' % ('/'.join(path), c.key))
        last = k
    rkeys = {c.key for c in rn.children}
    i = 0
    n = len(an.children)
    prev_end = A.toks[an.body[0] - 1][3] if an.body[0] > 0 else 0
    while i < n:
        c = an.children[i]
        if c.key in rkeys:
            rc = [x for x in rn.children if x.key == c.key][0]
            if c.kind != rc.kind:
                raise OverlayError('%s: kind mismatch for %r' % ('/'.join(path), c.key))
            if c.kind == 'container':
                hr = texts(R.toks[rc.lo:rc.body[0]])
                ha = texts(A.toks[c.lo:c.body[0]])
                if hr != ha:
                    raise OverlayError('%s: container header differs: %r' % ('/'.join(path), c.key))
                ops += _cont_ops(R, rc, A, c, path + (c.key,), allow_subst, errs)
            else:
                ops += _leaf_ops(R, rc, A, c, path + (c.key,), allow_subst, errs)
            prev_end = A.toks[c.hi - 1][3]
            i += 1
            continue
        j = i
        while j < n and an.children[j].key not in rkeys:
            j += 1
        text = A.text[prev_end:A.toks[an.children[j - 1].hi - 1][3]]
        nxt = an.children[j].key if j < n else None
        ops.append({'op': 'item', 'path': list(path), 'before_item': nxt, 'text': text})
        prev_end = A.toks[an.children[j - 1].hi - 1][3]
        i = j
    return ops


def _strip_repo_comments(text, raw_comment_lines):
    """an inserted text is a slice of the annotated file and so carries along the repository's own comment lines that
    stand between the neighbouring tokens; the raw unit supplies those itself, so they are dropped here (otherwise
    every refresh/compile cycle would add one more copy)"""
    out = []
    for l in text.split('\n'):
        t = l.strip()
        if t.startswith('//') and not t.startswith('//@') and t in raw_comment_lines:
            continue
        out.append(l)
    return '\n'.join(out)


def compile_overlay(raw, annotated, allow_subst=False):
    R, A = Tree(raw), Tree(annotated)
    errs = []
    ops = _cont_ops(R, R.root, A, A.root, (), allow_subst, errs)
    if errs:
        raise OverlayError('\n'.join(errs))
    rc = {l.strip() for l in raw.split('\n') if l.strip().startswith('//')}
    for o in ops:
        if 'text' in o:
            t = _strip_repo_comments(o['text'], rc)
            # leading white space is the gap to the previous token: normalise it (it would grow by one per cycle)
            m = re.match(r'\s*', t)
            lead = t[:m.end()]
            if '\n' in lead:
                lead = '\n'
            elif lead:
                lead = ' '
            o['text'] = lead + t[m.end():]
    return ops


def _split_anchor(rt, before, after):
    """positions b1 < b2 with the whole `before` window ending at b1 and the whole `after` window starting at b2.
    Returns (position, sure): block-start annotations stay after the `{`, block-end ones before the `}`;
    otherwise the annotation stays with the preceding text and the placement is only a guess."""
    nb, na = len(before), len(after)
    b1 = [b for b in range(nb, len(rt) + 1) if rt[b - nb:b] == before]
    b2 = [b for b in range(0, len(rt) - na + 1) if rt[b:b + na] == after]
    if len(b1) != 1 or len(b2) != 1 or not (b1[0] < b2[0]):
        return None
    if before and before[-1] == '{':
        return b1[0], True
    if after and after[0] == '}':
        return b2[0], True
    return b1[0], False


def _edge_anchor(rt, before, after):
    nb, na = len(before), len(after)
    if after and after[0] == '}' and na >= 4:
        pos = [b for b in range(0, len(rt) - na + 1) if rt[b:b + na] == after]
        if len(pos) == 1:
            return pos[0]
    if before and before[-1] == '{' and nb >= 4:
        pos = [b for b in range(nb, len(rt) + 1) if rt[b - nb:b] == before]
        if len(pos) == 1:
            return pos[0]
    return None


def apply_overlay(raw, ops, guessed=None):
    """returns (text, inserted) where inserted = [(start, end, op_index)] offsets in text; `guessed` collects the
    item paths in which an annotation had to be placed by a guess"""
    if guessed is None:
        guessed = []
    R = Tree(raw)
    ins = []        # (offset, order, text, op_index)
    dels = []       # (start, end) ranges of raw replaced by subst ops
    placed = {}     # item path -> [(op index, token position)] of the annotations placed so far
    deferred = []   # ambiguous annotations: decided afterwards from the order of their neighbours
    for k, op in enumerate(ops):
        node = R.find(op['path'])
        if node is None:
            raise AnchorError('lost anchor: item %s not found' % '/'.join(op['path']))
        if op['op'] == 'item':
            if node.kind != 'container':
                raise AnchorError('lost anchor: %s is not a container' % '/'.join(op['path']))
            if op['before_item'] is None:
                tk = node.body[1]
                off = R.tok_start(tk) if node is not R.root else len(raw)
            else:
                ch = [c for c in node.children if c.key == op['before_item']]
                if not ch:
                    raise AnchorError('lost anchor: item %s/%s not found'
                                      % ('/'.join(op['path']), op['before_item']))
                off = R.tok_start(ch[0].lo)
            ins.append((off, k, op['text'].strip('\n') + '\n', k))
            continue
        if node.kind != 'leaf':
            raise AnchorError('lost anchor: %s is not a leaf item' % '/'.join(op['path']))
        rt = texts(R.toks[node.lo:node.hi])
        b, best, second = _best(rt, op['before'], op['after'])
        full = 2 * (len(op['before']) + len(op['after']))
        if second >= best - 1 or best < full * 0.45:
            # annotations at a block boundary are tied to that boundary: a full, unique match of the side that
            # contains the brace decides, whatever happened on the other side
            edge = _edge_anchor(rt, op['before'], op['after'])
            if edge is not None:
                b, best, second = edge, full, 0
        if best >= full * 0.45 and second >= best - 1:
            # typical cause: new tokens were inserted exactly at the anchor, so the text before it and the text
            # after it both still match, at two different places
            alt = _split_anchor(rt, op['before'], op['after'])
            if alt is not None:
                b, sure = alt
                second = best - 2
                if not sure:
                    guessed.append('/'.join(op['path']))
        if best < full and _moved_apart(rt, b, op['before'], op['after']):
            # one side of the anchor still matches right here while the other side no longer does at all and matches
            # somewhere else instead (branches swapped, statements moved): the placement is a guess
            guessed.append('/'.join(op['path']))
        if best >= full * 0.45 and second >= best - 1 and op['op'] != 'subst':
            # two places of the item look alike (repeated code): annotations keep their relative order, so the
            # neighbours that are placed without doubt bound the range; decided after the loop
            deferred.append((k, op, node, rt, full))
            continue
        if best < full * 0.45 or second >= best - 1:
            raise AnchorError('lost anchor in %s (score %d/%d, runner-up %d): context %r | %r'
                              % ('/'.join(op['path']), best, full, second,
                                 ' '.join(op['before'][-6:]), ' '.join(op['after'][:6])))
        placed.setdefault(tuple(op['path']), []).append((k, b))
        if op['op'] == 'subst':
            old = op['old']
            if rt[b:b + len(old)] != old:
                raise AnchorError('substituted text changed in %s: expected %r'
                                  % ('/'.join(op['path']), ' '.join(old)))
            s = R.tok_start(node.lo + b)
            e = R.tok_end(node.lo + b + len(old) - 1)
            dels.append((s, e))
            ins.append((s, k, op['text'].strip('\n') + '\n', k))
        else:
            off = R.tok_start(node.lo + b) if node.lo + b < len(R.toks) else len(raw)
            ins.append((off, k, op['text'].strip('\n') + '\n', k))
    for k, op, node, rt, full in deferred:
        nb = placed.get(tuple(op['path']), [])
        lo = max([b for kk, b in nb if kk < k] or [0])
        hi = min([b for kk, b in nb if kk > k] or [len(rt)])
        best, second, bi = -1, -1, None
        for b in range(lo, hi + 1):
            sc = _score(rt, b, op['before'], op['after'])
            if sc > best:
                second, best, bi = best, sc, b
            elif sc > second:
                second = sc
        if bi is None or best < full * 0.45 or second >= best - 1 or (lo == 0 and hi == len(rt)):
            raise AnchorError('lost anchor in %s (score %d/%d, runner-up %d, between its neighbours): context %r | %r'
                              % ('/'.join(op['path']), best, full, second,
                                 ' '.join(op['before'][-6:]), ' '.join(op['after'][:6])))
        placed.setdefault(tuple(op['path']), []).append((k, bi))
        off = R.tok_start(node.lo + bi) if node.lo + bi < len(R.toks) else len(raw)
        ins.append((off, k, op['text'].strip('\n') + '\n', k))
    ins.sort(key=lambda x: (x[0], x[1]))
    out = []
    inserted = []
    pos = 0
    cur = 0
    dels.sort()
    di = 0
    for off, _, text, k in ins:
        seg = raw[pos:off]
        out.append(seg)
        cur += len(seg)
        pos = off
        # keep inline insertions on their own lines
        lead = '' if (not out or ''.join(out[-1:]).endswith('\n') or cur == 0) else ''
        out.append(lead + text)
        inserted.append((cur, cur + len(lead + text), k))
        cur += len(lead + text)
        while di < len(dels) and dels[di][0] == off:
            pos = dels[di][1]
            di += 1
    out.append(raw[pos:])
    return ''.join(out), inserted


def _run_back(rt, p, win):
    """number of tokens of `win` (read backwards from its end) that match rt just before position p"""
    n = 0
    while n < len(win) and p - 1 - n >= 0 and rt[p - 1 - n] == win[len(win) - 1 - n]:
        n += 1
    return n


def _run_fwd(rt, p, win):
    n = 0
    while n < len(win) and p + n < len(rt) and rt[p + n] == win[n]:
        n += 1
    return n


def _moved_apart(rt, p, before, after, k=3):
    """the annotation is the first thing of a block (its context before ends with `{`) and at the chosen position p that
    block opening still matches while the block's content does not -- and the content is found (at least k tokens, two more
    than here) as the beginning of some other block: the blocks were swapped (condition negated, match arms reordered), so a
    proof hint would land in the wrong branch.  Symmetrically for an annotation that is the last thing of a block.  A changed
    token next to an annotation (the usual small edit) does not meet this: its window is not the start / end of another block."""
    bm, am = _run_back(rt, p, before), _run_fwd(rt, p, after)
    if before and before[-1] == '{' and bm >= k and am < min(k, len(after)):
        need = max(k, am + 2)
        return any(q != p and q > 0 and rt[q - 1] == '{' and _run_fwd(rt, q, after) >= need for q in range(len(rt) + 1))
    if after and after[0] == '}' and am >= k and bm < min(k, len(before)):
        need = max(k, bm + 2)
        return any(q != p and q < len(rt) and rt[q] == '}' and _run_back(rt, q, before) >= need for q in range(len(rt) + 1))
    return False


def strip_inserted(text, inserted):
    out = []
    pos = 0
    for s, e, _ in inserted:
        out.append(text[pos:s])
        pos = e
    out.append(text[pos:])
    return ''.join(out)


def verify_insert_only(raw, text, inserted, ops):
    """generated text minus insertions == raw, token for token (subst ops excepted: their
    old tokens are listed)"""
    a = texts(lex(strip_inserted(text, inserted)))
    b = texts(lex(raw))
    if any(o['op'] == 'subst' for o in ops):
        # remove the substituted tokens from b: cheap check = multiset containment
        return len(a) <= len(b)
    return a == b


def load_ops(path):
    with open(path) as f:
        return json.load(f)


def save_ops(path, ops):
    with open(path, 'w') as f:
        json.dump(ops, f, indent=1)
        f.write('\n')
