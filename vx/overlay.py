"""Insert-only overlays.

compile_overlay(raw, annotated) -> ops   (authoring time)
apply_overlay(raw', ops)        -> generated text + map of inserted ranges (every run)

An op never matches on a whole statement: item ops are addressed by item path,
token ops by item path + a window of neighbouring tokens, so changing an
expression of the repository does not move or lose an annotation.  The generated
file minus the inserted ranges is, token for token, the mechanically extracted
text (checked on every run by `verify_insert_only`).
"""
import difflib
import json
from .lex import lex, texts
from .tree import Tree


class OverlayError(Exception):
    """authoring-time problem (annotated file is not raw + insertions)"""


class AnchorError(Exception):
    """run-time: an op cannot be placed on the current tree (=> undecided)"""


NMIN, NMAX = 8, 80


def _score(rt, b, before, after):
    s = 0
    nb = len(before)
    cont = True
    for i in range(1, nb + 1):
        if b - i >= 0 and rt[b - i] == before[nb - i]:
            s += 2 if cont else 1
        else:
            cont = False
    cont = True
    for i in range(len(after)):
        if b + i < len(rt) and rt[b + i] == after[i]:
            s += 2 if cont else 1
        else:
            cont = False
    return s


def _best(rt, before, after, hint=None):
    best, second, bi = -1, -1, None
    for b in range(len(rt) + 1):
        s = _score(rt, b, before, after)
        if s > best:
            second, best, bi = best, s, b
        elif s > second:
            second = s
    return bi, best, second


def _ctx(rt, i, n):
    return rt[max(0, i - n):i], rt[i:i + n]


def _choose_ctx(rt, i):
    n = NMIN
    while True:
        before, after = _ctx(rt, i, n)
        bi, best, second = _best(rt, before, after)
        full = 2 * (len(before) + len(after))
        if bi == i and best == full and second <= best - 8:
            return before, after
        if n >= NMAX or n >= len(rt):
            if bi == i and second < best:
                return before, after
            raise OverlayError('cannot find a unique context for token %d' % i)
        n *= 2


def _leaf_ops(R, rn, A, an, path, allow_subst, errs):
    rt = texts(R.toks[rn.lo:rn.hi])
    at = texts(A.toks[an.lo:an.hi])
    if rt == at:
        return []
    sm = difflib.SequenceMatcher(None, rt, at, autojunk=False)
    ops = []
    for tag, i1, i2, j1, j2 in sm.get_opcodes():
        if tag == 'equal':
            continue
        # inserted text: from the end of the previous A token to the end of the last new one
        if j2 > j1:
            t0 = A.toks[an.lo + j1 - 1][3] if j1 > 0 else A.toks[an.lo][2]
            t1 = A.toks[an.lo + j2 - 1][3]
            new = A.text[t0:t1]
        else:
            new = ''
        before, after = _choose_ctx(rt, i1)
        if tag == 'insert':
            ops.append({'op': 'tok', 'path': list(path), 'before': before, 'after': after,
                        'text': new})
        else:
            if not allow_subst:
                errs.append('%s: annotated text %ss repository tokens %r (-> %r); '
                                   'make this a named rewrite or a subst'
                                   % ('/'.join(path), tag, ' '.join(rt[i1:i2]), new.strip()[:80]))
                continue
            ops.append({'op': 'subst', 'path': list(path), 'before': before, 'after': after,
                        'old': rt[i1:i2], 'text': new})
    return ops


def _cont_ops(R, rn, A, an, path, allow_subst, errs):
    ops = []
    akeys = [c.key for c in an.children]
    amap = {c.key: c for c in an.children}
    last = -1
    for c in rn.children:
        if c.key not in amap:
            errs.append('%s: item %r of the raw unit is missing in the annotated file'
                               % ('/'.join(path), c.key))
            continue
        k = akeys.index(c.key)
        if k < last:
            raise OverlayError('%s: item %r is out of order' % ('/'.join(path), c.key))
        last = k
    rkeys = {c.key for c in rn.children}
    i = 0
    n = len(an.children)
    prev_end = A.toks[an.body[0] - 1][3] if an.body[0] > 0 else 0
    while i < n:
        c = an.children[i]
        if c.key in rkeys:
            rc = [x for x in rn.children if x.key == c.key][0]
            if c.kind != rc.kind:
                raise OverlayError('%s: kind mismatch for %r' % ('/'.join(path), c.key))
            if c.kind == 'container':
                hr = texts(R.toks[rc.lo:rc.body[0]])
                ha = texts(A.toks[c.lo:c.body[0]])
                if hr != ha:
                    raise OverlayError('%s: container header differs: %r' % ('/'.join(path), c.key))
                ops += _cont_ops(R, rc, A, c, path + (c.key,), allow_subst, errs)
            else:
                ops += _leaf_ops(R, rc, A, c, path + (c.key,), allow_subst, errs)
            prev_end = A.toks[c.hi - 1][3]
            i += 1
            continue
        j = i
        while j < n and an.children[j].key not in rkeys:
            j += 1
        text = A.text[prev_end:A.toks[an.children[j - 1].hi - 1][3]]
        nxt = an.children[j].key if j < n else None
        ops.append({'op': 'item', 'path': list(path), 'before_item': nxt, 'text': text})
        prev_end = A.toks[an.children[j - 1].hi - 1][3]
        i = j
    return ops


def compile_overlay(raw, annotated, allow_subst=False):
    R, A = Tree(raw), Tree(annotated)
    errs = []
    ops = _cont_ops(R, R.root, A, A.root, (), allow_subst, errs)
    if errs:
        raise OverlayError('\n'.join(errs))
    return ops


def apply_overlay(raw, ops):
    """returns (text, inserted) where inserted = [(start, end, op_index)] offsets in text"""
    R = Tree(raw)
    ins = []        # (offset, order, text, op_index)
    dels = []       # (start, end) ranges of raw replaced by subst ops
    for k, op in enumerate(ops):
        node = R.find(op['path'])
        if node is None:
            raise AnchorError('lost anchor: item %s not found' % '/'.join(op['path']))
        if op['op'] == 'item':
            if node.kind != 'container':
                raise AnchorError('lost anchor: %s is not a container' % '/'.join(op['path']))
            if op['before_item'] is None:
                tk = node.body[1]
                off = R.tok_start(tk) if node is not R.root else len(raw)
            else:
                ch = [c for c in node.children if c.key == op['before_item']]
                if not ch:
                    raise AnchorError('lost anchor: item %s/%s not found'
                                      % ('/'.join(op['path']), op['before_item']))
                off = R.tok_start(ch[0].lo)
            ins.append((off, k, op['text'].strip('\n') + '\n', k))
            continue
        if node.kind != 'leaf':
            raise AnchorError('lost anchor: %s is not a leaf item' % '/'.join(op['path']))
        rt = texts(R.toks[node.lo:node.hi])
        b, best, second = _best(rt, op['before'], op['after'])
        full = 2 * (len(op['before']) + len(op['after']))
        if best < full * 0.45 or second >= best - 1:
            raise AnchorError('lost anchor in %s (score %d/%d, runner-up %d): context %r | %r'
                              % ('/'.join(op['path']), best, full, second,
                                 ' '.join(op['before'][-6:]), ' '.join(op['after'][:6])))
        if op['op'] == 'subst':
            old = op['old']
            if rt[b:b + len(old)] != old:
                raise AnchorError('substituted text changed in %s: expected %r'
                                  % ('/'.join(op['path']), ' '.join(old)))
            s = R.tok_start(node.lo + b)
            e = R.tok_end(node.lo + b + len(old) - 1)
            dels.append((s, e))
            ins.append((s, k, op['text'].strip('\n') + '\n', k))
        else:
            off = R.tok_start(node.lo + b) if node.lo + b < len(R.toks) else len(raw)
            ins.append((off, k, op['text'].strip('\n') + '\n', k))
    ins.sort(key=lambda x: (x[0], x[1]))
    out = []
    inserted = []
    pos = 0
    cur = 0
    dels.sort()
    di = 0
    for off, _, text, k in ins:
        seg = raw[pos:off]
        out.append(seg)
        cur += len(seg)
        pos = off
        # keep inline insertions on their own lines
        lead = '' if (not out or ''.join(out[-1:]).endswith('\n') or cur == 0) else ''
        out.append(lead + text)
        inserted.append((cur, cur + len(lead + text), k))
        cur += len(lead + text)
        while di < len(dels) and dels[di][0] == off:
            pos = dels[di][1]
            di += 1
    out.append(raw[pos:])
    return ''.join(out), inserted


def strip_inserted(text, inserted):
    out = []
    pos = 0
    for s, e, _ in inserted:
        out.append(text[pos:s])
        pos = e
    out.append(text[pos:])
    return ''.join(out)


def verify_insert_only(raw, text, inserted, ops):
    """generated text minus insertions == raw, token for token (subst ops excepted: their
    old tokens are listed)"""
    a = texts(lex(strip_inserted(text, inserted)))
    b = texts(lex(raw))
    if any(o['op'] == 'subst' for o in ops):
        # remove the substituted tokens from b: cheap check = multiset containment
        return len(a) <= len(b)
    return a == b


def load_ops(path):
    with open(path) as f:
        return json.load(f)


def save_ops(path, ops):
    with open(path, 'w') as f:
        json.dump(ops, f, indent=1)
        f.write('\n')
