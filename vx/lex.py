"""Minimal Rust lexer: enough to find token boundaries, brace structure and to
compare two texts modulo whitespace and comments.

Token = (kind, text, start, end); kinds: id, life, num, str, chr, op.
Comments and whitespace are trivia: they are not tokens, they stay in the text
between token spans.
"""
import re

OPS3 = ['<<=', '>>=', '...', '..=']
OPS2 = ['->', '=>', '::', '==', '!=', '<=', '>=', '&&', '||', '+=', '-=', '*=',
        '/=', '%=', '^=', '&=', '|=', '..', '<<']
# NB: '>>' is deliberately not a token (generics: Vec<Vec<T>>)

_id = re.compile(r'[A-Za-z_][A-Za-z0-9_]*')
_num = re.compile(r'[0-9][0-9A-Za-z_]*(\.[0-9][0-9A-Za-z_]*)?')
_raw = re.compile(r'b?r(#*)"')


class LexError(Exception):
    pass


def lex(s):
    toks = []
    i, n = 0, len(s)
    while i < n:
        c = s[i]
        if c in ' \t\r\n':
            i += 1
            continue
        if s.startswith('//', i):
            j = s.find('\n', i)
            i = n if j < 0 else j
            continue
        if s.startswith('/*', i):
            depth, j = 1, i + 2
            while j < n and depth:
                if s.startswith('/*', j):
                    depth += 1
                    j += 2
                elif s.startswith('*/', j):
                    depth -= 1
                    j += 2
                else:
                    j += 1
            i = j
            continue
        m = _raw.match(s, i)
        if m:
            close = '"' + m.group(1)
            j = s.find(close, m.end())
            if j < 0:
                raise LexError('unterminated raw string at %d' % i)
            j += len(close)
            toks.append(('str', s[i:j], i, j))
            i = j
            continue
        if c == '"' or (c == 'b' and i + 1 < n and s[i + 1] == '"'):
            j = i + (2 if c == 'b' else 1)
            while j < n and s[j] != '"':
                if s[j] == '\\':
                    j += 1
                j += 1
            j += 1
            toks.append(('str', s[i:j], i, j))
            i = j
            continue
        if c == "'":
            # char literal or lifetime
            if i + 2 < n and s[i + 1] == '\\':
                j = s.find("'", i + 3)
                toks.append(('chr', s[i:j + 1], i, j + 1))
                i = j + 1
                continue
            if i + 2 < n and s[i + 2] == "'":
                toks.append(('chr', s[i:i + 3], i, i + 3))
                i += 3
                continue
            m = _id.match(s, i + 1)
            if m:
                toks.append(('life', s[i:m.end()], i, m.end()))
                i = m.end()
                continue
            # multi-byte char literal
            j = s.find("'", i + 1)
            toks.append(('chr', s[i:j + 1], i, j + 1))
            i = j + 1
            continue
        m = _id.match(s, i)
        if m:
            toks.append(('id', m.group(0), i, m.end()))
            i = m.end()
            continue
        m = _num.match(s, i)
        if m:
            e = m.end()
            # "1..n": do not swallow the range dots (regex needs digit after '.')
            toks.append(('num', s[i:e], i, e))
            i = e
            continue
        for ops, k in ((OPS3, 3), (OPS2, 2)):
            if s[i:i + k] in ops:
                toks.append(('op', s[i:i + k], i, i + k))
                i += k
                break
        else:
            toks.append(('op', c, i, i + 1))
            i += 1
    return toks


def texts(toks):
    return [t[1] for t in toks]


OPEN = {'{': '}', '(': ')', '[': ']'}
CLOSE = {'}', ')', ']'}


def match_close(toks, k):
    """toks[k] is an opening bracket; returns index of the matching close."""
    depth = 0
    for j in range(k, len(toks)):
        t = toks[j][1]
        if toks[j][0] != 'op':
            continue
        if t in OPEN:
            depth += 1
        elif t in CLOSE:
            depth -= 1
            if depth == 0:
                return j
    raise LexError('unbalanced bracket at offset %d' % toks[k][2])
