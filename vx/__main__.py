"""authoring CLI:  python3 -m vx <cmd> <unit>
   raw      write .work/<unit>.raw.rs
   compile  diff .work/<unit>.annot.rs against raw -> overlays/<name>.json
   gen      raw + overlay -> .work/<unit>.gen.rs
   verus    gen + run verus, print summary
"""
import json, os, sys
from .unit import *
from .overlay import compile_overlay, save_ops, load_ops, OverlayError


def main():
    cmd, name = sys.argv[1], sys.argv[2]
    u = unit_module(name)
    os.makedirs(WORK, exist_ok=True)
    if cmd == 'raw':
        raw, ctx = build_raw(u)
        open(os.path.join(WORK, name + '_raw.rs'), 'w').write(raw)
        print('raw: %d lines, %d rewrite log entries' % (raw.count('\n'), len(ctx.log)))
    elif cmd == 'compile':
        raw, ctx = build_raw(u)
        ann = open(os.path.join(WORK, name + '.annot.rs')).read()
        try:
            ops = compile_overlay(split_shim(raw)[1], split_shim(ann)[1], allow_subst='--subst' in sys.argv)
        except OverlayError as e:
            print('OVERLAY ERROR\n%s' % e)
            sys.exit(1)
        # split ops over overlay files by path prefix (unit module may define OVERLAY_SPLIT)
        split = getattr(u, 'OVERLAY_SPLIT', None)
        own = getattr(u, 'OWN_OVERLAYS', [u.NAME])
        buckets = {}
        for op in ops:
            buckets.setdefault(split(op) if split else u.NAME, []).append(op)
        for k, v in buckets.items():
            f = os.path.join(ROOT, 'overlays', k + '.json')
            if k in own:
                save_ops(f, v)
                print('overlay %s: %d ops (saved)' % (k, len(v)))
            else:
                cur = load_ops(f) if os.path.exists(f) else []
                same = json.dumps(cur, sort_keys=True) == json.dumps(v, sort_keys=True)
                print('overlay %s: %d ops (shared, not saved; %s)' % (k, len(v), 'identical to the committed one' if same else 'DIFFERS from the committed one - refresh the annot from gen'))
    elif cmd == 'refresh':
        g = generate(u)
        open(os.path.join(WORK, name + '.annot.rs'), 'w').write(g['text'])
        print('annot refreshed from raw + committed overlay (%d lines)' % g['text'].count('\n'))
    elif cmd in ('gen', 'verus'):
        g = generate(u)
        path = os.path.join(WORK, name + '_gen.rs')
        open(path, 'w').write(g['text'])
        print('gen: %d lines, %d insertions' % (g['text'].count('\n'), len(g['inserted'])))
        if cmd == 'verus':
            seed = int(os.environ.get('VERIF_SEED', '0'))
            r = run_verus(path, flags=getattr(u, 'VERUS_FLAGS', []), modules=getattr(u, 'VERIFY_MODULES', None), seed=seed)
            res = r['result'] or {}
            vr = res.get('verification-results', {})
            print('rc', r['rc'], 'wall %.1fs' % r['wall'], vr)
            for d in r['diags']:
                if d.get('level') == 'error':
                    sp = d.get('spans', [])
                    loc = ['%d' % s['line_start'] for s in sp]
                    print('  error:', d['message'][:120], 'lines', ','.join(loc))
    else:
        print(__doc__)


main()
