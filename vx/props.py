"""Property -> units, witnesses, and what stays assumed / not covered (goes verbatim into the evidence)."""

COMMON_ASSUMPTIONS = [
    'model E: rust_decimal::Decimal arithmetic is treated as exact real arithmetic (machine arithmetic treated as '
    'mathematical); rounding to 28 digits and Decimal overflow are not modelled',
    'Verus + Z3 are trusted; the generated single-file crate is built from /repo/src by mechanical extraction (vx), '
    'the rewrite rules that fired are listed under coverage.extraction_rewrites_fired',
    'shim contracts for rust_decimal, time, std collections (coverage.trusted_base) are assumed, not proved',
    'format!/tracing macros are shadowed: message text and Display impls are not verified',
    'exec code is borrow-checked by rustc in the real crate; Verus runs with --no-lifetime on units whose '
    'invariants mention moved vectors',
]

PROPS = {}


def prop(pid, **kw):
    PROPS[pid] = kw


prop('C01', units=['bk'], level='proof',
     technique='Verus contracts on the extracted bookkeeping code (delta_for_tx vs five-arm step spec; ledger fold invariant)',
     level_text='Deductive proof (Verus) over the extracted bookkeeping code: for all inputs delta_for_tx satisfies the average-cost step specification and txs_to_delta_list is the fold of that step; model E (exact arithmetic).',
     level_note='Assumes exact Decimal arithmetic, the shim contracts for rust_decimal/time/std, Verus+Z3; CSV parsing and rendering are outside.',
     not_covered=['<=1e-9 rounding clause (model E)', 'CSV text -> CsvTx parsing', 'rendering of figures into table cells'],
     witnesses=[])

BK_NOTE = ('Assumes exact Decimal arithmetic (model E), the shim contracts for rust_decimal/time/std collections, '
           'Affiliate interning, Verus+Z3. CSV parsing, option handling and rendering are outside the verified units.')

prop('C02', units=['bk'], level='proof',
     technique='Verus contracts: both window scans of get_superficial_loss_info against fold specs, ratio = min(sold, acquired, held)/sold, cent rounding rule, declared-amount validation',
     level_text='Deductive proof (Verus) for all transaction lists: window ends (30 days, inclusive), split-adjusted acquired/held counts, ratio, denied amount and reported gain of a sale are those of the statement.',
     level_note=BK_NOTE,
     not_covered=['parsing of the `superficial loss` CSV cell (string code)', 'rounding of * and / to 28 digits (model E)'],
     witnesses=[])

prop('C03', units=['bk'], level='proof',
     technique='Verus: per-step conservation lemma + induction over the ledger (theorem_conservation) + postcondition tot_denied == 0 of the real driver loop',
     level_text='Deductive proof (Verus): lemmas over the step contract give the conservation identity for ledgers of any length; the driver txs_to_delta_list is proved to hand every denied loss back (ghost counter of generated adjustment rows).',
     level_note=BK_NOTE,
     not_covered=['identity is proved in exact arithmetic; accumulated Decimal rounding is not modelled'],
     witnesses=[])

prop('C04', units=['bk'], level='proof',
     technique='Verus: type invariant of ConstrainedDecimal (>= 0), sum invariant wf() of the affiliate status table, delta_for_tx Err <==> step_reject, prefix invariant of the driver; witnesses for message visibility',
     level_text='Deductive proof (Verus) of non-negativity, all-affiliate total = sum, registered => no cost base/gain, rejection iff impossible (model E), correct prefix before an error. Visibility of the message in every output mode is outside contracts and only watched by CLI witnesses.',
     level_note=BK_NOTE + ' D13 (rounded split factor) is invisible to model E and guarded by its witness only.',
     not_covered=['message reaches the user in every output mode (witness replay only: D5)', 'rounded-factor acceptance (D13, witness only)',
                  'application-level "error stays per security" (D15, witness; see C08)'],
     witnesses=['D5', 'D13', 'D15'])

prop('C15', units=['bk'], level='proof',
     technique='Verus: split arm of delta_for_tx + per-affiliate split factors in both window scans (code contracts); lemma_step_scales / lemma_ratio_scale_invariant (a step commutes with restating quantities in another split period)',
     level_text='Deductive proof (Verus) of the step-level statement for all five row kinds and of the ratio invariance; the whole-history induction (fold commutation) is not mechanised.',
     level_note=BK_NOTE,
     not_covered=['whole-history induction over the fold', 'rounded split factors (model E)', 'global-vs-per-affiliate split expansion (unit ord, added when ported)'],
     witnesses=['D13'])

prop('C16', units=['bk'], level='proof',
     technique='Verus: AffiliatePortfolioSecurityStatuses::new view postcondition + lemma_opening_equiv (opening status == state after an opening Buy) + ledger fold from init_stv',
     level_text='Deductive proof (Verus) that the ledger started from an opening status equals the ledger after the corresponding Default-affiliate purchase (state equality, then the same fold).',
     level_note=BK_NOTE,
     not_covered=['parse_initial_status string splitting / rejection before processing (cmd.rs)', 'call site in the async I/O driver (witness D11)'],
     witnesses=['D11'])

prop('C17', units=['costs'], level='proof',
     technique='Verus contracts on costs.rs: MaxSingleDayCosts sum invariant; calc_max_day_cost_per_sec row k = day maximum or carried closing value for every security; calc_yearly_max_cost_day = best row of the year (earliest on ties)',
     level_text='Deductive proof (Verus) for all delta lists satisfying deltas_ok (per security in settlement order): every dated row, the carry-forward, the row total and the yearly best day are those of the statement, for any hash iteration order.',
     level_note=BK_NOTE + ' deltas_ok at the call site in run_acb_app_to_render_model is assumed (concatenation of per-security ledgers). hole_date_keys (keys().map().collect()) is an assumed std paraphrase with arbitrary order.',
     not_covered=['render_total_costs string assembly', 'Costs::sorted_years (rendering helper)', 'listing of ignored transactions as notes (strings)'],
     witnesses=['D1', 'D2b'])
