"""Property -> units, witnesses, and what stays assumed / not covered (goes verbatim into the evidence)."""

COMMON_ASSUMPTIONS = [
    'model E: rust_decimal::Decimal arithmetic is treated as exact real arithmetic (machine arithmetic treated as '
    'mathematical); rounding to 28 digits and Decimal overflow are not modelled',
    'Verus + Z3 are trusted; the generated single-file crate is built from /repo/src by mechanical extraction (vx), '
    'the rewrite rules that fired are listed under coverage.extraction_rewrites_fired',
    'shim contracts for rust_decimal, time, std collections (coverage.trusted_base) are assumed, not proved',
    'format!/tracing macros are shadowed: message text and Display impls are not verified',
    'exec code is borrow-checked by rustc in the real crate; Verus runs with --no-lifetime on units whose '
    'invariants mention moved vectors',
]

PROPS = {}


def prop(pid, **kw):
    PROPS[pid] = kw


prop('C01', units=['bk'], level='proof',
     technique='Verus contracts on the extracted bookkeeping code: delta_for_tx vs the five-arm step specification spec_step_ok (for a sale with a denied part: reported gain + denied amount = plain gain); txs_to_delta_list: the reported deltas are the fold (chain) of that step from the opening status, and the rows of the ledger are exactly the input rows in order plus generated adjustment rows (embeds; a prefix on an error); constrained-decimal layer; Tx::try_from (defaults; reads back every row written by to_csvtx as the same transaction)',
     level_text='Deductive proof (Verus) over the extracted bookkeeping code: for all inputs delta_for_tx satisfies the average-cost step specification and txs_to_delta_list is the fold of that step; model E (exact arithmetic).',
     level_note='Assumes exact Decimal arithmetic, the shim contracts for rust_decimal/time/std, Verus+Z3; CSV parsing and rendering are outside.',
     not_covered=['<=1e-9 rounding clause (model E: exact arithmetic)', 'CSV text -> CsvTx parsing (csv crate, number and date syntax)', 'rendering of figures into table cells'],
     witnesses=[])

BK_NOTE = ('Assumes exact Decimal arithmetic (model E), the shim contracts for rust_decimal/time/std collections, '
           'Affiliate interning, Verus+Z3. CSV parsing, option handling and rendering are outside the verified units.')

prop('C02', units=['bk', 'drv'], level='proof',
     technique='Verus contracts: both window scans of get_superficial_loss_info against fold specs, ratio = min(sold, acquired, held)/sold, cent rounding rule, declared-amount validation; parse_csv_superficial_loss (unit drv): a declared loss is read as the number before an optional terminating `!`, which forces it; positive or unreadable numbers are refused',
     level_text='Deductive proof (Verus) for all transaction lists: window ends (30 days, inclusive), split-adjusted acquired/held counts, ratio, denied amount and reported gain of a sale are those of the statement.',
     level_note=BK_NOTE,
     not_covered=['Decimal::from_str itself (the number a text denotes is an uninterpreted function of the text)', 'rounding of * and / to 28 digits (model E)'],
     witnesses=[])

prop('C03', units=['bk'], level='proof',
     technique='Verus: per-step conservation lemma + induction over the ledger (theorem_conservation) + postcondition tot_denied == 0 of the real driver loop',
     level_text='Deductive proof (Verus): lemmas over the step contract give the conservation identity for ledgers of any length; the driver txs_to_delta_list is proved to hand every denied loss back (ghost counter of generated adjustment rows).',
     level_note=BK_NOTE,
     not_covered=['identity is proved in exact arithmetic; accumulated Decimal rounding is not modelled'],
     witnesses=[])

prop('C04', units=['bk', 'agg', 'drv', 'rnd', 'wr'], level='proof',
     technique='Verus: type invariant of ConstrainedDecimal (>= 0), sum invariant wf() of the affiliate status table, delta_for_tx Err <==> step_reject, prefix invariant of the ledger (the partial ledger of a rejected security is a prefix of a correct one), gains table over exactly the accepted ledgers, driver: an error stays with its security; run_acb_app_to_render_model: the table of a rejected security carries its rejection message; write_render_result: every security\'s table is handed to the writer (trait AcbWriter with a ghost log of what was printed); witnesses for message visibility in the writers; CsvWriter::print_render_table (unit wr, the writer behind --csv-output-dir): what is written for a table is its header, its rows in order, the footer if any, one record per note and one record per error ("[!] " + message, first column) -- the rejection message of a security is part of its file (defect D5)',
     level_text='Deductive proof (Verus) of non-negativity, all-affiliate total = sum, registered => no cost base/gain, rejection iff impossible (model E), correct prefix before an error, exclusion of a rejected security from every gains total, that the rejection message is attached to that security\'s table in the render model, and that every table is handed to the output writer. How the two writers print a table (text / CSV) is outside contracts and watched by witness D5.',
     level_note=BK_NOTE + ' D13 (rounded split factor) is invisible to model E and guarded by its witness only.',
     not_covered=['TextWriter / CsvWriter: printing of the errors of a table (tabled / csv crates; witness D5)', 'rounded-factor acceptance (D13, witness only)'],
     witnesses=['D5', 'D13', 'D15'])

prop('C15', units=['bk', 'ord'], level='proof',
     technique='Verus: split arm of delta_for_tx + per-affiliate split factors in both window scans (code contracts); lemma_step_scales / lemma_ratio_scale_invariant (a step commutes with restating quantities in another split period); theorem_split_block + theorem_scaled_ledgers + theorem_split_neutral (induction over the ledger fold `chain` that is the postcondition of txs_to_delta_list)',
     level_text='Deductive proof (Verus): the code contracts give every ledger as the fold of the step rules; over that fold, theorem_split_neutral proves for all histories, split positions and ratios k>0 that a ledger and the ledger of the same history with a Split row of ratio k for every holder inserted and all later rows restated report the same gain on every later row and end with equal cost bases (share counts scaled by k). Later sales that are superficial losses are covered at step level only (ratio invariance), not in the whole-history theorem.',
     level_note=BK_NOTE + ' Hypotheses of the whole-history theorem: both ledgers are accepted, the split block has one row per affiliate holding shares, later sales are plain sales of a holder.',
     not_covered=['whole-history statement for later sales that are superficial losses (step-level ratio invariance only)', 'rounded split factors (model E)', 'acceptance of rounded factors'],
     witnesses=['D13'])

prop('C16', units=['bk', 'ord', 'drv', 'rnd'], level='proof',
     technique='Verus: AffiliatePortfolioSecurityStatuses::new view postcondition + lemma_opening_equiv / theorem_buy_block (opening status == state after opening Buys) + ledger fold from init_stv; run_acb_app_to_delta_models (the default affiliate is an extra holder of global splits exactly when the security has an opening position; only the security\'s own entry is read); parse_initial_status (what -b yields satisfies the driver\'s precondition init_ok); cmd::command_main and run_acb_app_to_console (unit rnd): the command line layer hands the opening positions of parse_initial_status, a fresh RateLoader and the options as given to the library entry point, whose preconditions (init_ok, loader invariant, input size) are discharged there',
     level_text='Deductive proof (Verus) that the ledger started from an opening status equals the ledger after the corresponding Default-affiliate purchase (state equality, then the same fold, theorem_scaled_ledgers with k = 1), that the driver hands exactly the security\'s own opening position to its ledger and to the split expansion, and that parse_initial_status produces, for all argument lists, opening positions of the default affiliate alone with a cost base, filed under their own security.',
     level_note=BK_NOTE + ' Splitting at ":", trimming and number syntax of the -b argument are stand-ins without assumptions (hole_split_colon, hole_trim_string, Decimal::from_str).',
     not_covered=['syntax of the -b argument (string code)', 'command-line parsing (clap); the csv crate writer behind write_txs_to_csv'],
     witnesses=['D11'])

prop('C17', units=['costs', 'rnd', 'bk', 'ord'], level='proof',
     technique='Verus contracts on costs.rs: MaxSingleDayCosts sum invariant; calc_max_day_cost_per_sec row k = day maximum or carried closing value for every security; calc_yearly_max_cost_day = best row of the year (earliest on ties); the admissibility of its input (deltas_ok) is proved at the call site from the contracts of txs_to_delta_list, replace_global_security_splits_for_holders and run_acb_app_to_delta_models',
     level_text='Deductive proof (Verus) for all delta lists satisfying deltas_ok (per security in settlement order): every dated row, the carry-forward, the row total and the yearly best day are those of the statement, for any hash iteration order; and deltas_ok itself is proved for the list run_acb_app_to_render_model builds (lemma_concat_ledgers_deltas_ok over the per-ledger facts: own security, cost base on both sides or none, settlement order kept through split expansion and generated adjustments).',
     level_note=BK_NOTE + ' hole_date_keys (keys().map().collect()), hole_map_into_vec, hole_map_entries, hole_clone_deltas are assumed std paraphrases with arbitrary order. The opening-position and rate-loader preconditions of run_acb_app_to_render_model are those of the command-line layer (not verified).',
     not_covered=['render_total_costs string assembly', 'listing of ignored transactions as notes (strings)'],
     witnesses=['D1', 'D2b'])


ALL_UNITS = ['bk', 'agg', 'ord', 'costs', 'summary', 'fx', 'conv', 'pdf', 'drv', 'rnd']

prop('C05', units=ALL_UNITS, level='proof',
     technique='Verus: every unwrap/expect/assert!/panic!/index/slice/division and every loop (decreases) inside the extracted functions is a discharged obligation (run-time assertions are shadowed by rt_assert(requires cond))',
     level_text='Deductive proof (Verus), limited to the extracted core (bookkeeping, gains aggregation, splits, costs, summary range/simple summary, rate loader + tx_loader, FxTracker/BrokerTx order, pdf page chunks and page iterator): no panic and termination for all inputs reaching these functions, in model E (Decimal overflow not modelled). The front ends (clap, csv, json, xlsx, pdf text, regex) are NOT covered.',
     level_note=BK_NOTE + ' Vec lengths <= isize::MAX and get_num_pages < u32::MAX are assumed. Async functions are verified after removing async/.await (sequential awaits only).',
     not_covered=['front ends and parsers (external crates, string code)', 'Decimal overflow for magnitudes beyond 7.9e28',
                  'allocation failure', 'functions not extracted (listed in coverage.extraction log as dropped/assumed)'],
     witnesses=['D6', 'D17'])

prop('C06', units=['agg'], level='proof',
     technique='Verus: calc_security_cumulative_capital_gains (total = sum of gains, per settlement-year sums), calc_cumulative_capital_gains (aggregate = sum over securities for any hash iteration order), sorted year keys',
     level_text='Deductive proof (Verus) that every yearly figure and total is the sum of the rows/securities it summarises, independent of HashMap iteration order. The display-rounding clause is string code and not covered.',
     level_note=BK_NOTE + ' hole_values / hole_year_keys paraphrase std iterator chains (arbitrary order) and are assumed.',
     not_covered=['rounding half away from zero to cents in rendered strings (dollar_precision_str, render.rs)', 'footer string assembly'],
     witnesses=[])

prop('C07', units=['drv', 'ord', 'bk'], level='proof',
     technique='Verus: impl Ord/PartialOrd for Tx and CsvTx == (settlement date, read index); split_txs_by_security == order-preserving filter per security; run_acb_app_to_delta_models: row k of the concatenated files gets read index k, the rows are sorted by (settlement date, read index), each security sees the stable filter of that list; parse_tx_csv / csvtx_from_csv_values (portfolio/io/tx_csv.rs): one row per record of the file in file order, row i gets read index initial + i, and every field of a row is what the cell under its own column denotes -- columns are found by the lower-cased, trimmed header text (spec functions col_name, cell_of, vals_of, csv_row_reads), so column order, header case and padding, unknown columns and blank cells do not matter; a file with both a `settlement date` and a deprecated `date` column is refused',
     level_text='Deductive proof (Verus) of the ordering key, of the stable per-security partition, of the read-index assignment and of the by-name reading of the columns, for all files. What the csv crate splits a file into (header fields, records), str::trim / to_lowercase and what a date / number text denotes are uninterpreted functions of the text (shim/csv_stubs.rs).',
     level_note=BK_NOTE + ' std slice::sort is assumed stable and correct w.r.t. cmp_spec. tx_csv.rs: the csv reader is a stand-in (open_csv, headers, records read ahead of the loop, fields as a list), `for (i, x) in e.enumerate()` loops are rewritten with an explicit counter (R9), string-literal match -> if-chain (R30), `&str` hash keys looked up by &str: five axioms (a static string is its text); the dates handed out by the parser are assumed to lie in the supported calendar range (axiom_dates_read); precondition handed down from the entry points: fewer than 2^32 - 1 rows in all files together (read indices are u32).',
     not_covered=['the csv crate itself (quoting, record splitting), the time crate date parser'],
     witnesses=[])

prop('C08', units=['drv', 'ord', 'agg', 'bk', 'rnd'], level='proof',
     technique='Verus: split_txs_by_security (map[s] == filter(all, s)); run_acb_app_to_delta_models end to end (every security of the input gets its own result = the ledger of its own rows, split expansion included; syntactic obligation: no early exit in the per-security phase); get_cumulative_capital_gains (table = exactly the accepted ledgers; aggregate = sum over that table: adding a security changes it by that security\'s own totals); run_acb_app_to_render_model (one table per security)',
     level_text='Deductive proof (Verus) that the per-security input is the stable filter of the rows, that each security\'s result depends on its own rows and opening position only, that a failing security keeps its error to itself, is absent from the gains table, and that the aggregate sums exactly the accepted securities.',
     level_note=BK_NOTE + ' hole_map_entries / hole_map_into_vec paraphrase by-value HashMap iteration (arbitrary order).',
     not_covered=['rendering of the tables (strings)'],
     witnesses=['D15'])

prop('C09', units=['ord', 'costs', 'agg', 'bk', 'rnd'], level='proof',
     technique='Verus with hash iteration modelled as an arbitrary permutation: expand(global splits) is a function of the input (unique id-sorted enumeration), yearly max day = earliest best day, aggregate sums order-independent, sorted key lists (years of gains and cost tables), generated adjustment rows in affiliate-id order, securities visited and printed in name order',
     level_text='Deductive proof (Verus): each function that turns a hash container into ordered output satisfies a seed-free postcondition, so no result depends on iteration order. Byte-level output of tabled/csv and the render loop order are watched by witnesses only.',
     level_note=BK_NOTE + ' iteration order of std hash containers is unspecified in every assumed iterator contract.',
     not_covered=['bytes produced by tabled / csv writers', 'order of securities in run_acb_app_to_render_model (witness D2c)',
                  ],
     witnesses=['D2a', 'D2b', 'D2c'])

prop('C10', units=['summary', 'bk', 'smd', 'drv'], level='proof',
     technique='Verus: get_summary_range_delta_indicies (window of every later loss sale strictly after the last summarised settlement), make_simple_summary_txs (Buy reproduces balance and cost base), make_annual_gains_summary_txs (base Buy of balance + #years, one 1-share Sell per year realising that year net gain), make_summary_txs (generated rows: one Buy per affiliate still holding shares, each once, none left out - through the internal sort; kept rows re-emitted unchanged with explicit unforced superficial losses); make_aggregate_summary_txs and the summary-mode driver; Tx::to_csvtx / Tx::try_from(CsvTx) (a transaction written as a CSV row reads back as the same transaction: encoder ensures csv_encodes, decoder ensures tx_same on every encoded row, lemma_csv_row_roundtrip); theorem_simple_summary_roundtrip / theorem_summary_roundtrip / theorem_buy_block / theorem_scaled_ledgers over the ledger fold (chain) that is the postcondition of txs_to_delta_list; txs_to_csv_table (portfolio/io/tx_csv.rs, the writer of the summary file and of tx-export-convert): header = the export columns, each once, an optional one exactly when some row needs it; one record per row in order; every value under its own column (table_ok, cell_out); lemma_table_reads_back: read back by column name (the reader contract of parse_tx_csv) record i yields under every written column the trimmed text written for that field and nothing else; lemma_omitted_column: a column left out is empty in every row; theorem_written_row_reads_back: under the text hypotheses text_roundtrip_ok (what Display / to_string_min_precision write for a number, date, action word or currency code is a non-blank text that the matching parser reads back as the same value) the row parse_tx_csv reads from record i of the written table carries the same dates, action, quantities, prices, commissions, currencies, exchange rates and declared superficial loss as row i; write_txs_to_csv: the file written is the header record of that table followed by one record per row in order; run_acb_app_summary_to_console (unit smd): a summary that has rows is written, and the rows handed to the writer are the summary transactions in order, each as the CSV row that carries all its fields (From<Tx> for CsvTx = to_csvtx)',
     level_text='Deductive proof (Verus). Code contracts: what make_summary_txs emits, for all delta lists and dates. Round trip (plain summary), as a theorem over the ledger contract: for every history starting without holdings, every split point and every pair of accepted ledgers (full history / generated Buys followed by the later rows denying the same amounts), each later row reports the same gain, balance and cost base and the final holdings agree. Annual-gains mode: the generated rows are under contract, the round trip is not; known finding D16.',
     level_note=BK_NOTE + ' The preconditions of make_summary_txs (settlement order, superficial-loss data only on sales) are proved at its real call site for plain summaries: run_acb_app_summary_to_model -> make_aggregate_summary_txs (unit smd, from the driver\'s ledger_facts); for --summarize-annual-gains the range of years (years_ok) follows from the hypothesis of the properties on the input (calendar years 1900-2100, the uninterpreted predicate practical_input, assumed of parse_tx_csv and carried through sort, partition, split expansion and ledger by dates_from). Hypotheses of the round-trip theorem beyond the contracts: both ledgers are accepted; the re-run denies the same superficial-loss amounts on the kept rows (they are emitted explicitly, and the range contract keeps the last summarised row outside every later window); an affiliate left without shares has no cost base left.',
     not_covered=['that the re-run accepts the explicit superficial-loss amounts (validation against the recomputed value, 0.001 tolerance)', 'round trip in annual-gains mode', 'the text hypotheses themselves (text_roundtrip_ok: Display / FromStr pairs are uninterpreted functions of the value resp. the text; C11); security, memo and affiliate texts and the split ratio (presence only) in the written-file round trip; which value lands under which column, and that it is read from that column, is covered'],
     witnesses=['D3', 'D16'])

prop('C12', units=['fx', 'bk', 'drv'], level='proof',
     technique='Verus: get_effective_usd_cad_rate == oracle (rate of the day, else most recent published day within 7 before; never later/zero/older; Err for today-or-later without rate); load_rate_if_needed / load_tx_rates (explicit rate wins, CAD needs none, non-USD Err, keyed on trade date, frame); Tx::try_from currency/rate rules',
     level_text='Deductive proof (Verus) against an oracle of published rates, for all dates within years 0..=9998 and all cache states; row completion proved with a whole-row frame; the driver hands no row on that still lacks a rate (asserted after its call of load_tx_rates).',
     level_note=BK_NOTE + ' RemoteRateLoader returns exactly what was published (HTTP/JSON not verified); three calendar axioms about time::Date; async removed.',
     not_covered=['JSON parsing and inversion of daily observations', 'BC dates / year 9999 saturation corner'],
     witnesses=[])

prop('C13', units=['fx'], level='proof',
     technique='Verus: RateLoader invariant (every year in memory has correct entries; a year downloaded in this run is in memory and complete) => every look-up equals the cache-free answer; at most one download per year per run',
     level_text='Deductive proof (Verus) for any sequence of look-ups and any cache content an earlier run can have left behind (list_ok_asof).',
     level_note=BK_NOTE + ' RatesCache trait contract (returns what an earlier run wrote) and RemoteRateLoader contract are assumed; cache file I/O not verified.',
     not_covered=['CsvRatesCache file reading/writing'],
     witnesses=['D4'])

prop('C17_', units=[])
del PROPS['C17_']

prop('C18', units=['conv', 'qt', 'xlr', 'drv', 'xc'], level='proof',
     technique='Verus: all of FxTracker (implied rate, signed shares == cash amount, implicit conversion amount, pairing errors, unpaired row => Err) and impl Ord for BrokerTx == (settlement date, timestamp, tiebreak class, tiebreak, row); questrade::sheet_to_txs and its per-row handler (the immediately-invoked closure, as a function): one transaction per BUY / SELL / DIS / LIQ row in row order with that row\'s dates, absolute quantity, price, absolute commission, currency and account-derived affiliate (spec function `emitted`), nothing for the documented non-trade activities, and per row the exact FX side effect (USD dividend = its net amount; non-CAD trade = -/+ price x quantity - commission; conversion leg handed on with its net amount and currency), and the whole-sheet cash conservation: the signed share total of the emitted FX rows equals the net USD cash flow of the conversions, USD dividends and non-CAD trades of the sheet (loop invariant fx_bal == flow_sum); excel.rs (unit xlr): read_sheet_header builds the name -> index table of the first row with positions counted over all cells (header_ok), SheetReader::get / get_str / get_opt_dec / get_dec hand out the cell of the current row under the last header cell of that name (spec function `cell`), whatever the column order and whatever blank or non-text header cells there are; the CSV table written from the converted rows (txs_to_csv_table, unit drv) puts every value under its own column and reads back by column name (lemma_table_reads_back); tx_export_convert_impl::run_with_args and filter_and_verify_tx_accounts (unit xc): under every combination of --account, --security, --no-fx, --usd-exchange-rate and --no-sort the rows written are the converted rows that pass the filters (exactly the matching ones, in their order), with the given rate on USD rows only, sorted unless --no-sort, each turned into a CSV row field by field (stages_ok), and exactly one table -- the CSV table of those rows -- is handed to the writer',
     level_text='Deductive proof (Verus) for the FX-tracking and ordering layer of the Questrade converter and for the row loop of sheet_to_txs, for all sheets converted without complaint: which rows yield a transaction, with which fields, what each row does to the FX ledger, and that the FX rows add up to the sheet\'s net USD cash flow. What a cell contains, upper-casing, the account-type pattern, date parsing and the symbol alias table are uninterpreted functions of the text (shim/xl_stubs.rs). The header map and the cell access of excel.rs are verified in unit xlr on stand-ins for the office crate and for the std iterator adapters (each adapter = its strongest postcondition in terms of the closure contract); the SheetReader contract that unit qt assumes is derived there (qt_contract_get_str / qt_contract_get_dec). Witness D7 (blank header cell) stays as a run-time replay.',
     level_note=BK_NOTE + ' String::cmp is an uninterpreted total order; the ".FX" symbol concatenation is a hole. Unit qt: rewrites R29 (the row closure becomes fn row_body, captured variables as parameters, `row_num` dereferenced), R30 (match on string literals / String == literal -> if-chain over a stand-in string equality: Verus gives literal patterns no meaning), holes for the two literal action tables (with their contents), the alias look-up, memo concatenation, the clone of the FX rows; Range, Path are stand-ins; in unit qt SheetReader is a stand-in whose contract is proved in unit xlr for a current row at least as wide as the header (rows of an office::Range all have its width: assumed of the crate). Unit xlr: rewrites R31 (closure with a tuple-pattern parameter -> |__p| { let (a, b) = __p; .. }), R32 (into_iter / HashMap::from_iter -> stand-in constructors of shim/office_stubs.rs, the adapter chain keeps its text), R26 (to_string / Debug text of a cell value = uninterpreted function of the value); String keys looked up by &str: two axioms (shim/office_stubs.rs strkey); Decimal::from_str / from_f64 are functions of their argument, from_i64 is exact.',
     not_covered=['the office crate itself (xlsx decoding, that all rows of a Range have the same width)', 'command-line parsing (clap), xlsx reading, what a regular expression matches (uninterpreted), the writers themselves (TextWriter / CsvWriter: stand-in with the AcbWriter ghost log)'],
     witnesses=['D7', 'D17'])

prop('C20', units=['pdf', 'fmv'], level='proof',
     technique='Verus: safe_page_chunks_with_remainder_pn (every page 1..=n in some group, none out of range, no empty group) and OptimizedPageIter::next (never requests an unloaded / non-existent page, no unwrap/index failure) on top of LazyPageTextVec::load_pages (the cache update loop: what was loaded stays loaded, every requested page is loaded, for hint groups in any order); FmvParseSm (parse_page, gather_security_line, gather_total_line, finalize_security_fmv, parse_fmvs_from_page) against the spec function `run` (line-by-line reading), and theorem_layout / theorem_layout_empty: on every table of the documented layout `run` yields each row exactly once, in order, with the table total; parse_statement_text: the table is read from the first page that carries the table heading (no earlier page skipped in the search), the statement month is the first readable month line up to that page, and a statement is refused only for a stated reason (no heading page, unreadable table, no month line, a month line that is not a date)',
     level_text='Deductive proof (Verus). Page order: for all hint lists and page counts. Allocation table: the real state machine is verified against a recursive spec function over the lines of the page, for all pages; and for all pages whose table follows the documented layout (stated declaratively: header line, rows = first line + continuation lines whose joined text parses, a total-looking line inside a row only while the text so far does not parse, total row) that function returns exactly the rows, once each, and the total. What a regular expression matches / captures, str::trim/contains/lines and the meaning of one row text are uninterpreted functions of the text.',
     level_note='get_num_pages < u32::MAX is assumed; LazyPageTextVec::load_pages is verified (the cache only grows: what was loaded stays loaded, the requested pages are loaded -- defect D18 was hidden behind an assumed contract here until the fourth seed round) with the text extraction (one text per requested page) and the zip as holes; Iterator::next is verified as an inherent method (rule R23); hole_missing_pages / hole_to_deque paraphrase std iterator chains. parse_statement_text: the generic page iterator becomes a list of page texts (R35), the body of the month-line branch (month name, integer parsing, Date::from_calendar_date) is one hole with the same three outcomes (ignored / date / refusal). fmv: regex / str stand-ins of shim/fmv_stubs.rs (group 1 of SEC_FIRST_ROW_RE and TOTAL_ROW_RE takes part in every match); security_text_to_fmv and parse_large_decimal are assumed to be functions of their text.',
     not_covered=['what SEC_DATA_RE extracts from a row text (description / allocation / value split)', 'what the month line regex captures and how month names / numbers are read (one uninterpreted function of the page text)', 'pdf text extraction'],
     witnesses=[])


prop('C19', units=['etr'], level='proof',
     technique='Verus: find_sell_to_cover_trade_set - every set it returns consists of candidates at pairwise different positions, all of the benefit\'s security, with share counts adding up to the benefit\'s sold shares (loop invariant over the collected candidate sets, through the ranking and the sort); amend_benefit_sales - multiset conservation of trade confirmations (leftover + consumed == all, consumed are sales), exchange argument for the position search, descending removal; benefits passed through with dates of a sale within [benefit date, +5 days]; txs_from_data - one purchase row per benefit at FMV, one sale row per sell-to-cover, one row per leftover confirmation, each exactly once, sorted',
     level_text='Deductive proof (Verus) of the matching/accounting core of the E*TRADE extraction for all benefit and confirmation lists: a sell-to-cover is matched only by sales of the same security inside the five-day window whose share counts add up to the sold shares; every confirmation ends up exactly once (leftover or consumed by a sell-to-cover); benefits are otherwise unchanged; the rows written are one purchase per benefit, one sale per sell-to-cover, one row per leftover confirmation. The PDF text parsers and which of several equally good candidate sets wins (price ranking) are not verified.',
     level_note='Stand-ins for itertools / std iterator chains inside find_sell_to_cover_trade_set are assumed (hole_combinations: sub-sequences at pairwise different positions; hole_all/any_same_security, hole_sum_shares, hole_deref_refs, hole_take_first: paraphrases of all / any / map.sum / map.collect / into_iter.next; hole_rank_combos: one entry per candidate set carrying that set - its price arithmetic is not verified, its division by the share count of the set is a precondition of the hole (discharged from the candidate-set invariant under the input hypothesis that a reported sold-share count is not zero)); the local struct of that function is lifted to module level (R28); hole_position paraphrases iter().enumerate().position(..); sell_to_cover_data is assumed (all-or-none of the optional fields); BrokerTx / BenefitEntry equality is structural (derived); model E.',
     not_covered=['regex parsers of benefit / trade confirmation PDFs', 'price ranking among several candidate sets (average price, Decimal::MAX sentinel)', 'memo text of the rows'],
     witnesses=['D8'])
ALL_UNITS.append('etr')
ALL_UNITS.append('fmv')
ALL_UNITS.append('smd')
ALL_UNITS.append('qt')
ALL_UNITS.append('xlr')
ALL_UNITS.append('xc')
ALL_UNITS.append('wr')
