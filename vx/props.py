"""Property -> units, witnesses, and what stays assumed / not covered (goes verbatim into the evidence)."""

COMMON_ASSUMPTIONS = [
    'model E: rust_decimal::Decimal arithmetic is treated as exact real arithmetic (machine arithmetic treated as '
    'mathematical); rounding to 28 digits and Decimal overflow are not modelled',
    'Verus + Z3 are trusted; the generated single-file crate is built from /repo/src by mechanical extraction (vx), '
    'the rewrite rules that fired are listed under coverage.extraction_rewrites_fired',
    'shim contracts for rust_decimal, time, std collections (coverage.trusted_base) are assumed, not proved',
    'format!/tracing macros are shadowed: message text and Display impls are not verified',
    'exec code is borrow-checked by rustc in the real crate; Verus runs with --no-lifetime on units whose '
    'invariants mention moved vectors',
]

PROPS = {}


def prop(pid, **kw):
    PROPS[pid] = kw


prop('C01', units=['bk'], level='proof',
     technique='Verus contracts on the extracted bookkeeping code (delta_for_tx vs five-arm step spec; ledger fold invariant)',
     level_text='Deductive proof (Verus) over the extracted bookkeeping code: for all inputs delta_for_tx satisfies the average-cost step specification and txs_to_delta_list is the fold of that step; model E (exact arithmetic).',
     level_note='Assumes exact Decimal arithmetic, the shim contracts for rust_decimal/time/std, Verus+Z3; CSV parsing and rendering are outside.',
     not_covered=['<=1e-9 rounding clause (model E)', 'CSV text -> CsvTx parsing', 'rendering of figures into table cells'],
     witnesses=[])
