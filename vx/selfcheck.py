"""setup: nothing to build (python stdlib + pre-installed verus); verify the tools are there"""
import shutil, subprocess, sys
ok = True
for t in ('verus', 'cargo'):
    if not shutil.which(t):
        print('missing tool:', t); ok = False
if ok:
    p = subprocess.run(['verus', '--version'], stdout=subprocess.PIPE, stderr=subprocess.STDOUT)
    print(p.stdout.decode().strip().splitlines()[0] if p.stdout else 'verus ?')
sys.exit(0 if ok else 1)
