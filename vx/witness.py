"""Concrete witnesses replayed against the binaries built from /repo's working tree.

They are NOT the deciding technique (that is the Verus run); they (a) tell a listed known finding from a
new violation of the same property, (b) keep watch over repaired defects that live outside the verifier's
reach.  Each returns status 'ok' (behaviour required by the property observed) or 'defect'."""
import os
import re
import shutil
import subprocess
import tempfile

from .build import REPO

ROOT = os.path.dirname(os.path.dirname(os.path.abspath(__file__)))
WDIR = os.path.join(ROOT, 'witness')
_built = {}


class WitnessError(Exception):
    pass


def bin_dir():
    return os.path.join(os.environ.get('VERIF_REPO', REPO), 'target', 'debug')


def build_binaries():
    repo = os.environ.get('VERIF_REPO', REPO)
    if _built.get(repo):
        return
    env = dict(os.environ, CARGO_NET_OFFLINE='true')
    p = subprocess.run(['cargo', 'build', '--offline', '--bins'], cwd=repo, env=env,
                       stdout=subprocess.PIPE, stderr=subprocess.STDOUT, timeout=1800)
    if p.returncode != 0:
        raise WitnessError('cargo build failed: ' + p.stdout.decode(errors='replace')[-600:])
    _built[repo] = True


def run(exe, args, cwd=None, env=None, timeout=60):
    e = dict(os.environ)
    if env:
        e.update(env)
    try:
        p = subprocess.run([os.path.join(bin_dir(), exe)] + args, cwd=cwd or WDIR, env=e,
                           stdout=subprocess.PIPE, stderr=subprocess.PIPE, timeout=timeout)
    except subprocess.TimeoutExpired:
        return 124, '', 'timeout'
    return p.returncode, p.stdout.decode(errors='replace'), p.stderr.decode(errors='replace')


def panicked(rc, err):
    return rc == 101 or 'panicked at' in err


def same_n(args, n=6):
    outs = set()
    for _ in range(n):
        rc, o, e = run('acb', args)
        if panicked(rc, e):
            return 'defect', 'panic: ' + e[-200:]
        outs.add(o)
    return ('ok', '%d runs, one output' % n) if len(outs) == 1 else ('defect', '%d runs gave %d different outputs' % (n, len(outs)))


def cell_rows(out, pat):
    return [[c.strip() for c in l.split('|')] for l in out.splitlines() if re.search(pat, l)]


def w_d1(tmp):
    rc, o, e = run('acb', ['d1.csv', '--total-costs'])
    sect = o.split('Total Costs')[-1].split('Yearly Max Costs')[0]
    rows = cell_rows(sect, r'2020-01-05')
    if not rows:
        return 'defect', 'no 2020-01-05 row in the total-costs table: ' + (e or o)[-200:]
    v = rows[0][2]
    return ('ok', 'AAA on 2020-01-05 shows ' + v) if v == '$0.00' else ('defect', 'AAA (fully sold 2020-01-02) shows %s on 2020-01-05' % v)


def w_d2a(tmp):
    return same_n(['d2.csv'])


def w_d2b(tmp):
    return same_n(['d2b.csv', '--total-costs'])


def w_d2c(tmp):
    return same_n(['d2c.csv', '--total-costs'])


def _gain_rows(out, date):
    return [(r[1], r[3], r[8], r[9], r[10], r[12]) for r in cell_rows(out, date) if len(r) > 12]


def w_d3(tmp):
    rc, s, e = run('acb', ['d3.csv', '--summarize-before', '2020-03-05'])
    open(os.path.join(tmp, 's.csv'), 'w').write(s)
    rc1, o1, e1 = run('acb', [os.path.join(tmp, 's.csv'), 'd3rest.csv'])
    rc2, o2, e2 = run('acb', ['d3.csv'])
    a, b = _gain_rows(o1, r'2020-03-10'), _gain_rows(o2, r'2020-03-10')
    if not b:
        return 'defect', 'full history gives no 2020-03-10 row'
    return ('ok', 'sale of 2020-03-10: sfl %s gain %s in both' % (b[0][2], b[0][3])) if a == b else ('defect', 'summary+rest %s vs full history %s' % (a, b))


def _year_total(out, year):
    sect = out.split('Aggregate Gains')[-1]
    rows = cell_rows(sect, r'^\s*%s\s*\|' % year)
    return rows[0][1] if rows else None


def w_d16(tmp):
    rc, s, e = run('acb', ['d16.csv', '--summarize-before', '2021-01-10', '--summarize-annual-gains'])
    open(os.path.join(tmp, 's.csv'), 'w').write(s)
    rc1, o1, e1 = run('acb', [os.path.join(tmp, 's.csv'), 'd16rest.csv'])
    rc2, o2, e2 = run('acb', ['d16.csv'])
    a, b = _year_total(o1, 2021), _year_total(o2, 2021)
    return ('ok', '2021 total %s in both' % b) if a == b and b else ('defect', '2021 total %s via the annual-gains summary, %s for the full history' % (a, b))


def w_d4(tmp):
    home = os.path.join(tmp, 'home')
    os.makedirs(os.path.join(home, '.acb'))
    shutil.copy(os.path.join(WDIR, 'd4_home_acb', 'rates-2024.csv'), os.path.join(home, '.acb'))
    rc, o, e = run('acb', ['d4.csv', '--print-full-values'], env={'HOME': home})
    if '1.3399' in o and '2024-01-12' in o:
        return 'defect', '2024-01-12 converted with the cached rate of 2024-01-10 (1.3399), no download attempted'
    if 'Unable to retrieve exchange rate for 2024-01-12' in (o + e) or '2024-01-12' in o:
        return 'ok', 'stale cached year is reloaded for 2024-01-12 (download attempted / answered)'
    return 'defect', 'unexpected: ' + (o + e)[-200:]


def w_d5(tmp):
    out = os.path.join(tmp, 'out')
    rc, o, e = run('acb', ['d5.csv', '--csv-output-dir', out])
    txt = ''
    if os.path.isdir(out):
        for f in sorted(os.listdir(out)):
            txt += open(os.path.join(out, f)).read()
    if 'more than the current holdings' in txt + o + e:
        return 'ok', 'rejection message present in the csv output'
    return 'defect', 'rejection message appears nowhere in --csv-output-dir mode'


def w_d6(tmp):
    rc, o, e = run('acb', ['d6.csv'])
    return ('defect', 'panic: ' + e.strip().splitlines()[0][:160]) if panicked(rc, e) else ('ok', 'report printed, no panic')


def w_d11(tmp):
    rc1, o1, e1 = run('acb', ['-b', 'FOO:10:100', 'd11b.csv'])
    rc2, o2, e2 = run('acb', ['d11open.csv', 'd11b.csv'])
    a = [r[10] for r in cell_rows(o1, r'2020-06-10') if len(r) > 11]
    b = [r[10] for r in cell_rows(o2, r'2020-06-10') if len(r) > 11]
    return ('ok', 'share balances %s in both' % a) if a == b and a else ('defect', '-b gives %s, opening purchase gives %s' % (a, b))


def w_d13(tmp):
    rc, o, e = run('acb', ['d13.csv'])
    if 'non-integer share balance' in o + e:
        return 'defect', '1-for-3 split of 3 shares rejected as non-integer'
    return ('ok', 'accepted') if 'FOO' in o else ('defect', (o + e)[-200:])


def w_d15(tmp):
    rc, o, e = run('acb', ['d15.csv'])
    good = cell_rows(o, r'^\s*GOOD\s*\|')
    return ('ok', 'GOOD reported, BAD reported as error') if good and 'BAD' in o + e else ('defect', 'healthy security not reported: ' + (o + e)[-160:])


def w_d7(tmp):
    res = []
    for src, x in (('qt_blank.csv', 'b.xlsx'), ('qt_ok.csv', 'k.xlsx')):
        rc, o, e = run('csv-to-xlsx', [os.path.join(WDIR, src), '--output-filename', x], cwd=tmp)
        rc, o, e = run('tx-export-convert', [x, '--no-fx'], cwd=tmp)
        res.append(o.strip() + '|' + ('ERR' if 'Unable to parse' in o + e else ''))
    return ('ok', 'blank-headed column ignored') if res[0] == res[1] and 'FOO' in res[0] else ('defect', 'blank header shifts columns: ' + res[0][-160:])


def w_d17(tmp):
    rc, o, e = run('csv-to-xlsx', [os.path.join(WDIR, 'qt_fxt0.csv'), '--output-filename', 'z.xlsx'], cwd=tmp)
    rc, o, e = run('tx-export-convert', ['z.xlsx'], cwd=tmp)
    return ('defect', 'panic: ' + e.strip()[:160]) if panicked(rc, e) else ('ok', 'diagnostic: ' + (o + e).strip().splitlines()[-1][:100])


def w_d8(tmp):
    rc, o, e = run('etrade-plan-pdf-tx-extract', ['d8/rsu.txt', 'd8/dA/tc.txt', 'd8/dB/other.txt', 'd8/dC/tc.txt'])
    ok = re.search(r'Sell,7,111\.00', o) and re.search(r'Sell,20,', o) and not re.search(r'Sell,10,', o)
    return ('ok', 'sell-to-cover 20 + manual 7') if ok else ('defect', 'trade confirmations mis-accounted: ' + o[-240:])


WITNESSES = {
    'D1': w_d1, 'D2a': w_d2a, 'D2b': w_d2b, 'D2c': w_d2c, 'D3': w_d3, 'D16': w_d16, 'D4': w_d4, 'D5': w_d5,
    'D6': w_d6, 'D11': w_d11, 'D13': w_d13, 'D15': w_d15, 'D7': w_d7, 'D17': w_d17, 'D8': w_d8,
}


def run_witness(wid):
    os.makedirs(os.path.join(ROOT, '.work'), exist_ok=True)
    tmp = tempfile.mkdtemp(prefix='vxw_', dir=os.path.join(ROOT, '.work'))
    try:
        st, detail = WITNESSES[wid](tmp)
    except Exception as ex:  # malformed output etc.
        st, detail = 'defect', 'witness could not be evaluated: %r' % (ex,)
    finally:
        shutil.rmtree(tmp, ignore_errors=True)
    return dict(id=wid, status=st, detail=detail)


if __name__ == '__main__':
    import sys
    build_binaries()
    for w in (sys.argv[1:] or sorted(WITNESSES)):
        print(run_witness(w))
