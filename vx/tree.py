"""Item tree over a token stream: containers (mod / impl / trait / verus!) and
leaves (everything else), each addressed by a path of keys."""
from .lex import lex, match_close, LexError

ITEM_START = {
    'pub', 'fn', 'impl', 'struct', 'enum', 'union', 'mod', 'use', 'const', 'static',
    'type', 'trait', 'proof', 'spec', 'open', 'closed', 'broadcast', 'uninterp',
    'exec', 'unsafe', 'extern', 'macro_rules', 'async', 'global', 'tracked', 'ghost',
    'default',
}
QUALS = {'open', 'closed', 'spec', 'proof', 'exec', 'broadcast', 'uninterp', 'async',
         'unsafe', 'default', 'tracked', 'ghost'}


class Node:
    def __init__(self, key, lo, hi, kind, body=None):
        self.key = key          # e.g. "fn delta_for_tx"
        self.lo = lo            # first token index (attributes included)
        self.hi = hi            # one past last token index
        self.kind = kind        # 'container' | 'leaf'
        self.body = body        # (lo, hi) token range inside the braces, containers only
        self.children = []

    def __repr__(self):
        return '<%s %s %d..%d>' % (self.kind, self.key, self.lo, self.hi)


def _skip_attrs(toks, i, end):
    while i < end and toks[i][1] == '#':
        j = i + 1
        if j < end and toks[j][1] == '!':
            j += 1
        if j < end and toks[j][1] == '[':
            i = match_close(toks, j) + 1
        else:
            break
    return i


def _skip_vis(toks, i, end):
    if i < end and toks[i][1] == 'pub':
        i += 1
        if i < end and toks[i][1] == '(':
            i = match_close(toks, i) + 1
    return i


def _is_item_start(toks, i, end):
    if i >= end:
        return True
    k, t = toks[i][0], toks[i][1]
    if t in ('}', '#'):
        return True
    if k == 'id':
        if t in ITEM_START:
            return True
        if i + 1 < end and toks[i + 1][1] == '!':
            return True
    return False


def _item_end(toks, i, end):
    """i: first token of an item (attributes already skipped). Returns (hi, last_group)
    where last_group = (open_idx, close_idx) of the final depth-0 brace group or None."""
    j = i
    last = None
    while j < end:
        t = toks[j]
        if t[0] == 'op':
            if t[1] == ';':
                return j + 1, None
            if t[1] in '([':
                j = match_close(toks, j) + 1
                continue
            if t[1] == '{':
                c = match_close(toks, j)
                last = (j, c)
                j = c + 1
                if j < end and toks[j][1] == 'else':
                    continue
                if _is_item_start(toks, j, end):
                    return j, last
                continue
        j += 1
    return end, last


def _key(toks, lo, hi, last):
    i = _skip_attrs(toks, lo, hi)
    i = _skip_vis(toks, i, hi)
    # qualifiers
    while i < hi and toks[i][0] == 'id' and toks[i][1] in QUALS:
        i += 1
        if i < hi and toks[i][1] == '(':      # open(crate) / extern "C"
            i = match_close(toks, i) + 1
    if i < hi and toks[i][1] == 'extern':
        i += 1
        if i < hi and toks[i][0] == 'str':
            i += 1
    if i >= hi:
        return 'misc', False
    t = toks[i][1]
    nxt = toks[i + 1][1] if i + 1 < hi else ''
    if t == 'const' and nxt == 'fn':
        i += 1
        t, nxt = 'fn', toks[i + 1][1]
    if t == 'fn':
        return 'fn ' + nxt, False
    if t in ('struct', 'enum', 'union', 'type', 'static', 'const'):
        return t + ' ' + nxt, False
    if t in ('mod', 'trait'):
        return t + ' ' + nxt, last is not None
    if t == 'impl':
        stop = last[0] if last else hi
        return 'impl ' + ' '.join(x[1] for x in toks[i + 1:stop]), last is not None
    if t == 'use':
        return 'use ' + ' '.join(x[1] for x in toks[i + 1:hi - 1]), False
    if t == 'macro_rules':
        return 'macro ' + (toks[i + 2][1] if i + 2 < hi else '?'), False
    if toks[i][0] == 'id' and nxt == '!':
        return 'call ' + t, (t == 'verus' and last is not None)
    return 'misc ' + ' '.join(x[1] for x in toks[i:min(hi, i + 6)]), False


def parse_range(toks, lo, hi):
    """children of the token range [lo, hi)"""
    out = []
    seen = {}
    i = lo
    while i < hi:
        a = _skip_attrs(toks, i, hi)
        if a >= hi:
            # dangling attributes (inner attributes at the end) -> one leaf
            out.append(Node('misc attrs', i, hi, 'leaf'))
            break
        e, last = _item_end(toks, a, hi)
        key, is_cont = _key(toks, i, e, last)
        n = seen.get(key, 0) + 1
        seen[key] = n
        if n > 1:
            key = '%s #%d' % (key, n)
        if is_cont:
            node = Node(key, i, e, 'container', (last[0] + 1, last[1]))
            node.children = parse_range(toks, last[0] + 1, last[1])
        else:
            node = Node(key, i, e, 'leaf')
        out.append(node)
        i = e
    return out


class Tree:
    def __init__(self, text):
        self.text = text
        self.toks = lex(text)
        self.root = Node('', 0, len(self.toks), 'container', (0, len(self.toks)))
        self.root.children = parse_range(self.toks, 0, len(self.toks))

    def find(self, path):
        node = self.root
        for k in path:
            for c in node.children:
                if c.key == k:
                    node = c
                    break
            else:
                return None
        return node

    def leaves(self, node=None, path=()):
        node = node or self.root
        for c in node.children:
            p = path + (c.key,)
            if c.kind == 'container':
                yield from self.leaves(c, p)
            else:
                yield p, c

    def tok_start(self, k):
        """text offset of token k (len(text) if k is past the end)"""
        return self.toks[k][2] if k < len(self.toks) else len(self.text)

    def tok_end(self, k):
        return self.toks[k][3]
