HOOK_COMMITS = []
NOT_APPLICABLE = {
    'C11': 'text-level inverse of CSV writing/parsing: string, regex and csv-crate code is outside the reach of any contract the installed verifiers can discharge',
    'C14': 'quantifies over crash points inside std::fs / csv::Writer streaming; a function contract relates pre- and post-state of a completed call only, so no contract within reach expresses it',
}
