HOOK_COMMITS = []
NOT_APPLICABLE = {
    'C05': 'not yet wired (in progress this session)',
    'C06': 'not yet wired (in progress this session)',
    'C07': 'not yet wired (in progress this session)',
    'C08': 'not yet wired (in progress this session)',
    'C09': 'not yet wired (in progress this session)',
    'C10': 'not yet wired (in progress this session)',
    'C11': 'text-level inverse of CSV writing/parsing: string, regex and csv-crate code is outside the reach of any contract the installed verifiers can discharge',
    'C12': 'not yet wired (in progress this session)',
    'C13': 'not yet wired (in progress this session)',
    'C14': 'quantifies over crash points inside std::fs / csv::Writer streaming; a function contract relates pre- and post-state of a completed call only, so no contract within reach expresses it',
    'C18': 'not yet wired (in progress this session)',
    'C19': 'not yet wired (in progress this session)',
    'C20': 'not yet wired (in progress this session)',
}
