HOOK_COMMITS = []
NOT_APPLICABLE = {
    'C11': 'text-level inverse of CSV writing/parsing: string, regex and csv-crate code is outside the reach of any contract the installed verifiers can discharge',
    'C14': 'quantifies over crash points inside std::fs / csv::Writer streaming; a function contract relates pre- and post-state of a completed call only, so no contract within reach expresses it',
    'C19': 'regex parsers and the itertools subset search are outside the verifier; the remaining contract on amend_benefit_sales is not completed (front-end probe only); D8 repaired and watched nowhere in a claimed check',
}
