"""Map Verus diagnostics on a generated unit to labelled obligations and property tags."""
import bisect
import re
from .tree import Tree
from .unit import inserted_lines, line_of

MARK = re.compile(r'^\s*//@\s*([A-Z0-9,]+)\s+(.*)$')
FNMARK = re.compile(r'^\s*//@fn\s+([A-Z0-9,]+)\s*(.*)$')

IMPLICIT = 'C05'


class GenMap:
    def __init__(self, text, inserted, unit_default_tags, unit_name, tag_rules=()):
        self.tag_rules = [(re.compile(rx), tags) for rx, tags in tag_rules]
        self.text = text
        self.lines = text.split('\n')
        self.unit = unit_name
        self.ins = inserted_lines(text, inserted)        # (l0, l1, op)
        self.ins.sort()
        self.default = list(unit_default_tags)
        self.tree = Tree(text)
        # leaf line ranges
        self.leaves = []
        for path, n in self.tree.leaves():
            l0 = line_of(text, self.tree.tok_start(n.lo))
            l1 = line_of(text, self.tree.tok_end(n.hi - 1))
            self.leaves.append((l0, l1, path))
        self.leaves.sort()
        self.markers = []      # (line, tags, label)
        self.fnmarks = {}      # line -> tags
        for i, l in enumerate(self.lines, 1):
            m = FNMARK.match(l)
            if m:
                self.fnmarks[i] = m.group(1).split(',')
                continue
            m = MARK.match(l)
            if m:
                self.markers.append((i, m.group(1).split(','), m.group(2).strip()))

    def in_overlay(self, line):
        for l0, l1, k in self.ins:
            if l0 <= line <= l1:
                return (l0, l1, k)
        return None

    def leaf_of(self, line):
        best = None
        for l0, l1, path in self.leaves:
            if l0 <= line <= l1:
                if best is None or (l1 - l0) < (best[1] - best[0]):
                    best = (l0, l1, path)
        return best

    def fn_tags(self, leaf):
        if leaf is None:
            return self.default
        for ln, tags in self.fnmarks.items():
            if leaf[0] <= ln <= leaf[1]:
                return tags
        name = self.fn_name(leaf)
        for rx, tags in self.tag_rules:
            if rx.search(name):
                return tags
        return self.default

    def marker_for(self, line):
        """closest marker at or above `line` inside the same inserted range"""
        rng = self.in_overlay(line)
        if not rng:
            return None
        best = None
        for ln, tags, label in self.markers:
            if rng[0] <= ln <= line:
                best = (ln, tags, label)
        return best

    def all_labels(self):
        return self.markers

    def fn_name(self, leaf):
        if leaf is None:
            return '?'
        path = leaf[2]
        mods = [p[4:] for p in path if p.startswith('mod ')]
        owner = [p for p in path if p.startswith('impl ') or p.startswith('trait ')]
        name = path[-1]
        return '::'.join(mods) + ('::{%s}' % owner[-1] if owner else '') + '::' + name


def classify(gm, d):
    """d: one rustc-style json diagnostic of level error. returns failure record or None"""
    spans = d.get('spans', [])
    if not spans:
        return None
    prim = [s for s in spans if s.get('is_primary')] or spans
    # the clause that failed, if verus names it
    clause = [s for s in spans if s.get('label') and 'failed' in s['label']]
    blame = (clause or prim)[0]
    pline = prim[0]['line_start']
    leaf = gm.leaf_of(pline)
    rec = {
        'unit': gm.unit,
        'message': d.get('message', ''),
        'function': gm.fn_name(leaf),
        'primary_line': pline,
        'blame_line': blame['line_start'],
        'blame_text': gm.lines[blame['line_start'] - 1].strip() if blame['line_start'] <= len(gm.lines) else '',
        'primary_text': gm.lines[pline - 1].strip() if pline <= len(gm.lines) else '',
        'span_labels': [s.get('label') for s in spans if s.get('label')],
    }
    mk = gm.marker_for(blame['line_start'])
    if mk is None and clause:
        mk = None
    if mk is None:
        # try the other spans (e.g. the callee's requires clause)
        for s in spans:
            mk = gm.marker_for(s['line_start'])
            if mk:
                break
    if mk:
        rec['label'] = mk[2] or ('line %d' % mk[0])
        rec['tags'] = mk[1]
        rec['origin'] = 'contract'
    else:
        in_ovl = gm.in_overlay(blame['line_start']) is not None
        rec['origin'] = 'contract' if in_ovl else 'code'
        tags = list(gm.fn_tags(leaf))
        if not in_ovl and IMPLICIT not in tags:
            tags.append(IMPLICIT)       # implicit obligation of repository code (unwrap, index, div, assert)
        rec['tags'] = tags
        rec['label'] = ('unlabelled clause' if in_ovl else 'implicit obligation') + ' in ' + rec['function']
    rec['obligation'] = '%s::%s::%s' % (gm.unit, rec['function'].split('::')[-1].replace('fn ', ''), rec['label'])
    return rec
