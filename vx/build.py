"""Mechanical extraction of repository text into a single-file Verus crate.

Every helper logs what it did into ctx.log (-> evidence "rewrites"); a helper that
cannot find what it is told to transform raises BuildError (=> undecided, exit 2).
"""
import hashlib
import os
import re
from .lex import lex, match_close

REPO = os.environ.get('VERIF_REPO', '/repo')
EXT = ['rust_decimal_macros', 'rust_decimal', 'time', 'tracing', 'lazy_static', 'regex']


class BuildError(Exception):
    pass


class Ctx:
    def __init__(self, repo=None):
        self.repo = repo or REPO
        self.log = []           # (rule, file, detail)
        self.sources = {}       # module path -> repo file
        self.file_sha = {}
        self.lints = []         # syntactic obligations checked by the extractor: dict(tags, label, message, function)

    def note(self, rule, where, detail=''):
        self.log.append({'rule': rule, 'file': where, 'detail': detail})


def _brace_end(src, open_idx):
    """index after the brace matching src[open_idx] == '{' (lexer-aware)"""
    toks = lex(src[open_idx:])
    c = match_close(toks, 0)
    return open_idx + toks[c][3]


def _body_open(src, start):
    """offset of the '{' opening the body of the fn/impl whose header starts at `start`"""
    toks = lex(src[start:])
    depth = 0
    for t in toks:
        if t[0] != 'op':
            continue
        if t[1] in '([':
            depth += 1
        elif t[1] in ')]':
            depth -= 1
        elif t[1] == '{' and depth == 0:
            return start + t[2]
        elif t[1] == ';' and depth == 0:
            return None
    return None


class Src:
    """text of one repository file under transformation"""

    def __init__(self, ctx, path):
        self.ctx = ctx
        self.path = path
        full = os.path.join(ctx.repo, 'src', path)
        try:
            self.s = open(full).read()
        except OSError as e:
            raise BuildError('cannot read %s: %s' % (full, e))
        ctx.file_sha[path] = hashlib.sha256(self.s.encode()).hexdigest()

    def note(self, rule, detail=''):
        self.ctx.note(rule, self.path, detail)

    # ---- generic rules ---------------------------------------------------
    def cut_tests(self):
        n = 0
        while True:
            i = self.s.find('#[cfg(test)]')
            if i < 0:
                break
            b = self.s.index('{', i)
            semi = self.s.find(';', i)
            if 0 <= semi < b:      # #[cfg(test)] use ...; / mod x;
                self.s = self.s[:i] + self.s[semi + 1:]
            else:
                self.s = self.s[:i] + self.s[_brace_end(self.s, b):]
            n += 1
        if n:
            self.note('R12', 'dropped %d #[cfg(test)] items' % n)
        return self

    def cut_after(self, marker):
        i = self.s.find(marker)
        if i >= 0:
            self.s = self.s[:i]
            self.note('R12', 'cut everything from %r (tests)' % marker)
        return self

    def standard(self):
        s = self.s
        s, n = re.subn(r'(?s)#\[macro_export\]\nmacro_rules! \w+ \{.*?\n\}\n', '', s)
        if n:
            self.note('R2', 'dropped %d macro_rules definitions (expanded at use sites)' % n)
        self.s = s
        self.drop_impls(r'(std::fmt::|core::fmt::|fmt::)?(Display|Debug)\b', 'R6')
        s = self.s
        s, n = re.subn(r'\bpdec!\((-?[\d.]+)\)',
                       r'crate::util::decimal::PosDecimal::try_from(crate::rust_decimal::dec_lit(Ghost(\1real))).unwrap()', s)
        s, n2 = re.subn(r'(?<![\w])(?:rust_decimal_macros::)?dec!\((-?[\d.]+)\)',
                        r'crate::rust_decimal::dec_lit(Ghost(\1real))', s)
        if n + n2:
            self.note('R2', '%d decimal literal macros' % (n + n2))
        s = re.sub(r'(?m)^use rust_decimal_macros::dec;\n', '', s)
        s = re.sub(r'(?m)^use regex::Regex;\n', '', s)
        s = s.replace('use crate::{pdec, util::decimal::PosDecimal};', 'use crate::util::decimal::PosDecimal;')
        s, n = re.subn(r'const (\w+): &str', r"const \1: &'static str", s)
        if n:
            self.note('R12', "%d const &str -> &'static str" % n)
        cnt = 0
        for e in EXT:
            s, n = re.subn(r'(?<![\w:])' + e + r'::', 'crate::' + e + '::', s)
            cnt += n
        if cnt:
            self.note('R1', '%d external crate paths prefixed with crate::' % cnt)
        s = re.sub(r'(?m)^use crate::lazy_static::lazy_static;\n', '', s)
        n = s.count('|_|')
        if n:
            s = s.replace('|_|', '|_e|')
            self.note('R5', '%d closure parameters _ -> _e' % n)

        def derive(m):
            items = [y.strip() for y in m.group(1).split(',')]
            keep = [x for x in items if x not in ('Debug', 'Hash', 'Default')]
            if len(keep) != len(items):
                derive.n += 1
            return '#[derive(' + ', '.join(keep) + ')]'
        derive.n = 0
        s = re.sub(r'#\[derive\(([^)]*)\)\]', derive, s)
        if derive.n:
            self.note('R6', '%d derive lists without Debug/Hash/Default' % derive.n)
        s, n = re.subn(r'const (\w+): Decimal =\s*crate::rust_decimal::dec_lit',
                       r'let \1: Decimal = crate::rust_decimal::dec_lit', s)
        if n:
            self.note('R2', '%d local const Decimal -> let' % n)
        self.s = s
        return self

    def for_continue_to_else(self):
        """R24: inside a `for` loop body, a guard `if C { S; continue; }` (no else, direct statement of the body)
        becomes `if C { S; } else { <rest of the body> }`.  Same control flow; Verus has no `continue` in for-loops."""
        changed = 0
        for _round in range(20):
            toks = lex(self.s)
            edit = None
            for k, t in enumerate(toks):
                if t[1] != 'for' or t[0] != 'id':
                    continue
                if k > 0 and toks[k - 1][1] not in (';', '{', '}'):
                    continue            # `impl X for Y`, `for<'a>` ...
                # body = first depth-0 brace group after `for`
                j = k + 1
                depth = 0
                body = None
                while j < len(toks):
                    x = toks[j][1]
                    if toks[j][0] == 'op':
                        if x in '([':
                            depth += 1
                        elif x in ')]':
                            depth -= 1
                        elif x == '{' and depth == 0:
                            body = (j, match_close(toks, j))
                            break
                        elif x == ';' and depth == 0:
                            break
                    j += 1
                if not body:
                    continue
                bo, bc = body
                # direct statements: look for `if` at depth 0 of the body
                i = bo + 1
                while i < bc:
                    x = toks[i]
                    if x[0] == 'op' and x[1] in '([{':
                        i = match_close(toks, i) + 1
                        continue
                    if x[0] == 'id' and x[1] == 'if' and toks[i - 1][1] in (';', '{', '}'):
                        # find the if-block
                        m = i + 1
                        d2 = 0
                        blk = None
                        while m < bc:
                            y = toks[m]
                            if y[0] == 'op':
                                if y[1] in '([':
                                    d2 += 1
                                elif y[1] in ')]':
                                    d2 -= 1
                                elif y[1] == '{' and d2 == 0:
                                    blk = (m, match_close(toks, m))
                                    break
                            m += 1
                        if not blk:
                            break
                        io, ic = blk
                        has_else = ic + 1 < bc and toks[ic + 1][1] == 'else'
                        last = ic - 1
                        if toks[last][1] == ';':
                            last -= 1
                        if (not has_else and toks[last][1] == 'continue' and toks[last][0] == 'id'
                                and toks[last - 1][1] in (';', '{', '}')):
                            edit = (toks[last][2], toks[ic - 1][3], toks[ic][3], toks[bc][2])
                            break
                        i = ic + 1
                        continue
                    i += 1
                if edit:
                    break
            if not edit:
                break
            c0, c1, after_if, body_close = edit
            self.s = (self.s[:c0] + self.s[c1:after_if] + ' else {' + self.s[after_if:body_close] + '}\n' + self.s[body_close:])
            changed += 1
        if changed:
            self.note('R24', '%d guard-continue statements of for-loops turned into if/else' % changed)
        return self

    # ---- targeted rules --------------------------------------------------
    def _fn_match(self, name, nth=0):
        ms = list(re.finditer(r'(?m)^([ \t]*)((pub(\([a-z]+\))? )?(async )?fn ' + name + r'\b)', self.s))
        if len(ms) <= nth:
            raise BuildError('%s: no fn %s' % (self.path, name))
        return ms[nth]

    def drop_fn(self, name, nth=0, why='not selected'):
        m = self._fn_match(name, nth)
        start = m.start()
        lines = self.s[:start].split('\n')
        k = len(lines) - 1
        while k - 1 >= 0 and re.match(r'\s*(///|#\[|//)', lines[k - 1]):
            k -= 1
        start = len('\n'.join(lines[:k])) + (1 if k > 0 else 0)
        b = _body_open(self.s, m.start())
        if b is None:
            raise BuildError('%s: fn %s has no body' % (self.path, name))
        self.s = self.s[:start] + self.s[_brace_end(self.s, b):]
        self.note('drop', 'fn %s (%s)' % (name, why))
        return self

    def ext_fn(self, name, nth=0, why='assumed contract'):
        """keep the signature, replace the body: #[verifier::external_body]"""
        m = self._fn_match(name, nth)
        b = _body_open(self.s, m.start())
        if b is None:
            raise BuildError('%s: fn %s has no body' % (self.path, name))
        end = _brace_end(self.s, b)
        self.s = (self.s[:m.start()] + m.group(1) + '#[verifier::external_body]\n'
                  + self.s[m.start():b] + '{ unimplemented!() }' + self.s[end:])
        self.note('assume', 'fn %s body not verified (%s)' % (name, why))
        return self

    def drop_rx(self, rx, rule='drop', why='', required=True):
        n = 0
        while True:
            m = re.search(rx, self.s)
            if not m:
                break
            b = m.end() - 1 if self.s[m.end() - 1] == '{' else self.s.index('{', m.end() - 1)
            self.s = self.s[:m.start()] + self.s[_brace_end(self.s, b):]
            n += 1
        if n == 0 and required:
            raise BuildError('%s: nothing matches %s' % (self.path, rx))
        if n:
            self.note(rule, 'dropped %d block(s) matching %s %s' % (n, rx, why))
        return self

    def drop_impls(self, pat, rule='drop'):
        n = 0
        while True:
            m = re.search(r'(?ms)^(// [^\n]*\n)*impl(<[^{]*?>)?\s+' + pat + r'[^{]*\{', self.s)
            if not m:
                break
            self.s = self.s[:m.start()] + self.s[_brace_end(self.s, m.end() - 1):]
            n += 1
        if n:
            self.note(rule, 'dropped %d impl blocks of %s (formatting code is not verified)' % (n, pat))
        return self

    def replace(self, old, new, rule, count=1, required=True):
        """exact-text rewrite; the old text is pinned (missing => undecided)"""
        n = self.s.count(old)
        if n == 0:
            if required:
                raise BuildError('%s: pinned text for rewrite %s not found: %r' % (self.path, rule, old[:70]))
            return self
        if count and n != count:
            raise BuildError('%s: pinned text for rewrite %s occurs %d times (expected %d): %r'
                             % (self.path, rule, n, count, old[:70]))
        self.s = self.s.replace(old, new)
        self.note(rule, '%r -> %r' % (old[:60], new[:60]))
        return self

    def sub(self, rx, repl, rule, required=False):
        self.s, n = re.subn(rx, repl, self.s)
        if n == 0 and required:
            raise BuildError('%s: nothing matches %s' % (self.path, rx))
        if n:
            self.note(rule, '%d x %s' % (n, rx))
        return self

    def strip_derive(self, type_name, trait, rule='R6'):
        """remove `trait` from the derive list directly above `struct/enum type_name`"""
        m = re.search(r'#\[derive\(([^)]*)\)\]\s*(?:#\[[^\]]*\]\s*)*pub(?:\([a-z]+\))? (?:struct|enum) ' + type_name + r'\b', self.s)
        if not m:
            raise BuildError('%s: no derive list above %s' % (self.path, type_name))
        items = [x.strip() for x in m.group(1).split(',')]
        if trait not in items:
            raise BuildError('%s: %s does not derive %s' % (self.path, type_name, trait))
        keep = [x for x in items if x != trait]
        new = ('#[derive(' + ', '.join(keep) + ')]') if keep else ''
        old = '#[derive(' + m.group(1) + ')]'
        k = self.s.index(old, m.start())
        self.s = self.s[:k] + new + self.s[k + len(old):]
        self.note(rule, 'derive(%s) removed from %s (a Clone with `ensures r == *self` is assumed instead)' % (trait, type_name))
        return self

    def enum_loop(self, old_header, new_header, counter, rule='R9'):
        """`for (i, x) in E.enumerate() { B }` -> `let mut i: usize = 0; for x in E { B i += 1; }`; B must not `continue`"""
        k = self.s.find(old_header)
        if k < 0 or self.s.count(old_header) != 1:
            raise BuildError('%s: pinned loop header for %s not found exactly once: %r' % (self.path, rule, old_header))
        b = k + len(old_header) - 1
        if self.s[b] != '{':
            raise BuildError('%s: loop header must end with {' % self.path)
        e = _brace_end(self.s, b)
        body = self.s[b:e]
        if re.search(r'\bcontinue\b', body):
            raise BuildError('%s: loop body contains continue; %s not applicable' % (self.path, rule))
        self.s = self.s[:k] + new_header + self.s[b + 1:e - 1] + '    %s += 1;\n    }' % counter + self.s[e:]
        self.note(rule, '%r -> %r + counter increment at the end of the body' % (old_header, new_header))
        return self

    def only(self, keys, why='only the items the property depends on are extracted'):
        """keep only the top-level items with the given keys (e.g. 'fn foo', 'struct Bar') plus `use` lines"""
        from .tree import Tree
        t = Tree(self.s)
        out = []
        found = set()
        dropped = []
        for c in t.root.children:
            k = c.key.split(' #')[0]
            if k in keys or c.key.startswith('use '):
                # include preceding doc comments: from the end of the previous item
                out.append(self.s[(t.tok_end(c.lo - 1) if c.lo > 0 else 0):t.tok_end(c.hi - 1)])
                found.add(k)
            else:
                dropped.append(c.key)
        missing = [k for k in keys if k not in found]
        if missing:
            raise BuildError('%s: items not found: %s' % (self.path, missing))
        self.s = ''.join(out) + '\n'
        self.note('select', 'kept %s; not extracted: %s (%s)' % (sorted(found), ', '.join(dropped)[:300], why))
        return self

    def text(self):
        # R24 runs last: loops already turned into `while` by R19/R21 keep their `continue`
        self.for_continue_to_else()
        return self.s


def mod(name, body, vis='pub '):
    return '%smod %s {\nuse vstd::prelude::*;\n%s\n}\n' % (vis, name, body)


MARKER = '// ==== end of shim (everything above is /verif/shim, trusted; below: text extracted from /repo + overlay) ====\n'


def shim(*names):
    d = os.path.join(os.path.dirname(os.path.dirname(os.path.abspath(__file__))), 'shim')
    return ''.join(open(os.path.join(d, n + '.rs')).read() for n in names) + MARKER
