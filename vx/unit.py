"""Unit = one generated single-file crate: raw extraction + overlay -> Verus."""
import hashlib
import importlib
import json
import os
import re
import subprocess
import sys
import time

from .build import Ctx, BuildError, MARKER
from .overlay import (apply_overlay, compile_overlay, load_ops, save_ops, verify_insert_only,
                      AnchorError, OverlayError)
from .lex import LexError

ROOT = os.path.dirname(os.path.dirname(os.path.abspath(__file__)))
WORK = os.path.join(ROOT, '.work')
VERUS = os.environ.get('VERUS', 'verus')


class Undecided(Exception):
    pass


def unit_module(name):
    sys.path.insert(0, ROOT) if ROOT not in sys.path else None
    return importlib.import_module('units.' + name)


def overlay_files(u):
    names = getattr(u, 'OVERLAYS', [u.NAME])
    return [os.path.join(ROOT, 'overlays', n + '.json') for n in names]


def build_raw(u, repo=None):
    ctx = Ctx(repo)
    try:
        raw = u.build(ctx)
    except (BuildError, LexError) as e:
        raise Undecided('extraction failed: %s' % e)
    return raw, ctx


def load_unit_ops(u):
    ops = []
    for f in overlay_files(u):
        if os.path.exists(f):
            for o in load_ops(f):
                o['_src'] = os.path.basename(f)[:-5]
                ops.append(o)
    flt = getattr(u, 'OVERLAY_FILTER', None)      # a unit may use only part of a shared overlay
    if flt:
        ops = [o for o in ops if flt(o)]
    return ops


def generate(u, repo=None, canary=None):
    """returns dict(text, inserted, raw, ctx, ops)"""
    raw, ctx = build_raw(u, repo)
    ops = load_unit_ops(u)
    head, body = split_shim(raw)
    guessed = []
    try:
        text, inserted = apply_overlay(body, ops, guessed)
    except (AnchorError, LexError) as e:
        u_ = Undecided(str(e))
        u_.lints = list(ctx.lints)      # syntactic obligations do not depend on the overlay
        u_.unit = getattr(u, 'NAME', '?')
        raise u_
    if not verify_insert_only(body, text, inserted, ops):
        raise Undecided('internal: generated text minus insertions differs from the extracted text')
    n = len(head)
    inserted = [(s + n, e + n, k) for s, e, k in inserted]
    return dict(text=head + text, inserted=inserted, raw=raw, ctx=ctx, ops=ops, guessed=guessed)


def split_shim(text):
    k = text.find(MARKER)
    if k < 0:
        raise Undecided('internal: shim marker missing')
    k += len(MARKER)
    return text[:k], text[k:]


def line_of(text, off):
    return text.count('\n', 0, off) + 1


def inserted_lines(text, inserted):
    """list of (first_line, last_line, op_index)"""
    out = []
    for s, e, k in inserted:
        out.append((line_of(text, s), line_of(text, max(s, e - 1)), k))
    return out


def run_verus(path, flags=(), modules=None, seed=None, rlimit=None, timeout=300, multiple_errors=8,
              extra=()):
    cmd = [VERUS, path, '--output-json', '--time', '--error-format=json',
           '--multiple-errors', str(multiple_errors)] + list(flags)
    for m in (modules or []):
        cmd += ['--verify-only-module', m]
    if seed:
        cmd += ['--smt-option', 'smt.random_seed=%d' % seed]
    if rlimit:
        cmd += ['--rlimit', str(rlimit)]
    cmd += list(extra)
    t0 = time.time()
    try:
        p = subprocess.run(cmd, stdout=subprocess.PIPE, stderr=subprocess.PIPE, timeout=timeout,
                           cwd=os.path.dirname(path))
    except subprocess.TimeoutExpired:
        subprocess.run(['killall', '-q', 'z3', 'rust_verify'])
        raise Undecided('verus timed out after %ds' % timeout)
    wall = time.time() - t0
    out = p.stdout.decode(errors='replace')
    err = p.stderr.decode(errors='replace')
    res = None
    try:
        res = json.loads(out)
    except ValueError:
        # stdout may carry something before the json
        k = out.find('{')
        if k >= 0:
            try:
                res = json.loads(out[k:])
            except ValueError:
                res = None
    diags = []
    for line in err.splitlines():
        line = line.strip()
        if line.startswith('{'):
            try:
                diags.append(json.loads(line))
            except ValueError:
                pass
    return dict(cmd=' '.join(cmd), rc=p.returncode, result=res, diags=diags, stderr=err, wall=wall)
