"""./check <property> [--tier quick|thorough] [--replay file]

exit 0: every obligation tagged with the property was discharged (known findings listed)
exit 1: VIOLATION line(s) printed
exit 2: UNDECIDED (extraction / anchor / front-end / timeout / vacuity) - never an alarm
"""
import hashlib
import json
import os
import re
import subprocess
import sys
import time

from . import props as P
from .unit import (ROOT, Undecided, unit_module, generate, run_verus, line_of)
from . import unit as _unit
import shutil
# one scratch directory per invocation, so that checks can run in parallel
WORK = os.path.join(_unit.WORK, 'run_%d' % os.getpid())
from .diag import GenMap, classify
from .tree import Tree
from . import witness as W

EVID = os.path.join(ROOT, 'evidence')
# evidence is what a run against /repo itself found: runs against another tree (VERIF_REPO: scratch worktrees of the self-tests,
# mutation campaigns, seeds being authored) write theirs next to the scratch files instead
if os.environ.get('VERIF_REPO') and os.path.realpath(os.environ['VERIF_REPO']) != os.path.realpath('/repo'):
    EVID = os.path.join(_unit.WORK, 'evidence_other_tree')
REPLAY = os.path.join(ROOT, 'replay')
KNOWN = os.path.join(ROOT, 'KNOWN_FINDINGS.txt')

_unit_cache = {}


def trusted_scan(text):
    """every place where something is assumed rather than proved"""
    out = []
    lines = text.split('\n')
    pat = re.compile(r'external_body|assume_specification|\badmit\(\)|\bassume\(|external_type_specification|#\[verifier::external\b|\baxiom fn\b')
    name = re.compile(r'\bfn\s+(\w+)|assume_specification[^\[]*\[\s*(.+?)\s*\]\s*\(|struct\s+(\w+)')
    for i, l in enumerate(lines):
        if l.strip().startswith('//'):
            continue
        m = pat.search(l)
        if not m:
            continue
        ident = None
        if m.group(0).startswith('admit') or m.group(0).startswith('assume('):
            for j in range(i, max(-1, i - 40), -1):
                mm = re.search(r'\bfn\s+(\w+)', lines[j])
                if mm:
                    ident = mm.group(1)
                    break
        else:
            for j in range(i, min(len(lines), i + 4)):
                mm = name.search(lines[j])
                if mm:
                    ident = next(g for g in mm.groups() if g)
                    break
        out.append('%s:%s' % (m.group(0).rstrip('('), (ident or '?').strip()))
    return sorted(set(out))


def admits_in_repo_fns(text, inserted):
    """admit/assume inside overlay text that sits inside a repository function body: forbidden"""
    bad = []
    for s, e, k in inserted:
        seg = text[s:e]
        if re.search(r'\badmit\(\)|\bassume\(', seg):
            # item-level insertions define their own (axiom) functions; token-level ones sit in repo items
            bad.append((k, seg))
    return bad


def canary_text(text, inserted):
    """put assert(false) at the start of every fn body that has a `requires` clause or a type invariant in
    scope; returns (text, {line: fn})"""
    t = Tree(text)
    edits = []
    for path, n in t.leaves():
        key = path[-1]
        if not key.startswith('fn '):
            continue
        toks = t.toks[n.lo:n.hi]
        words = [x[1] for x in toks]
        head = words[:words.index('fn')] if 'fn' in words else []
        if 'spec' in head:
            continue
        # body = last depth-0 brace group
        from .tree import _item_end, _skip_attrs
        a = _skip_attrs(t.toks, n.lo, n.hi)
        e, last = _item_end(t.toks, a, n.hi)
        if not last:
            continue
        pre = t.text[t.tok_start(n.lo):t.tok_start(last[0])]
        if 'external_body' in pre or 'requires' not in pre:
            continue
        edits.append((t.tok_end(last[0]), '/'.join(path)))
    edits.sort()
    out = []
    pos = 0
    marks = {}
    cur_line = 1
    for off, name in edits:
        seg = text[pos:off]
        out.append(seg)
        cur_line += seg.count('\n')
        out.append(' assert(false); /*canary*/ ')
        marks[cur_line] = name
        pos = off
    out.append(text[pos:])
    return ''.join(out), marks


def run_unit(name, tier, seed):
    key = (name, seed)
    if key in _unit_cache:
        return _unit_cache[key]
    u = unit_module(name)
    os.makedirs(WORK, exist_ok=True)
    t0 = time.time()
    g = generate(u)
    path = os.path.join(WORK, name + '_gen.rs')
    with open(path, 'w') as f:
        f.write(g['text'])
    bad = admits_in_repo_fns(g['text'], [x for x in g['inserted'] if g['ops'][x[2]]['op'] != 'item'])
    if bad:
        raise Undecided('overlay of unit %s places admit/assume inside a repository item (op %d)' % (name, bad[0][0]))
    flags = list(getattr(u, 'VERUS_FLAGS', []))
    mods = getattr(u, 'VERIFY_MODULES', None)
    r = run_verus(path, flags=flags, modules=mods, seed=seed or None, rlimit=getattr(u, 'RLIMIT', 60), timeout=getattr(u, 'TIMEOUT', 900))
    res = r['result']
    if res is None:
        raise Undecided('unit %s: verus produced no result (rc %s): %s' % (name, r['rc'], r['stderr'][-400:]))
    vr = res.get('verification-results', {})
    errors = [d for d in r['diags'] if d.get('level') == 'error' and d.get('spans')]
    gm = GenMap(g['text'], g['inserted'], getattr(u, 'DEFAULT_TAGS', []), name, getattr(u, 'TAG_RULES', ()))
    fe = [d for d in r['diags'] if d.get('level') == 'error']
    if vr.get('encountered-vir-error') or (vr.get('encountered-error') and vr.get('errors', 0) == 0
                                           and vr.get('verified', 0) == 0):
        msg = '; '.join((d.get('message') or '')[:160] for d in fe[:3])
        raise Undecided('unit %s: front-end error (unsupported construct or type error): %s' % (name, msg))
    fails = []
    rlimit = []
    for d in errors:
        m = d.get('message', '')
        if 'aborting due to' in m:
            continue
        if 'rlimit' in m or 'Resource limit' in m or 'resource limit' in m:
            rlimit.append(m)
            continue
        rec = classify(gm, d)
        if rec:
            rec['diagnostic'] = d.get('rendered') or m
            fails.append(rec)
    for l in g['ctx'].lints:
        fails.append(dict(unit=name, message=l['message'], function=l['function'], primary_line=0, blame_line=0,
                          blame_text='', primary_text='', span_labels=[], label=l['label'], tags=l['tags'], origin='syntactic',
                          obligation='%s::%s::%s' % (name, l['function'].split('fn ')[-1], l['label']),
                          diagnostic='syntactic obligation checked by the extractor (vx), not by Verus: ' + l['message']))
    # where in the repository does the failing line come from (best effort: exact text of the line, unique match)
    for f_ in fails:
        for key in ('primary_text', 'blame_text'):
            t_ = (f_.get(key) or '').strip()
            if len(t_) < 12:
                continue
            for path_ in g['ctx'].file_sha:
                try:
                    lines_ = open(os.path.join(g['ctx'].repo, 'src', path_)).read().split('\n')
                except OSError:
                    continue
                hits = [i + 1 for i, l_ in enumerate(lines_) if l_.strip() == t_]
                if len(hits) == 1:
                    f_['repo_location'] = 'src/%s:%d' % (path_, hits[0])
                    break
            if 'repo_location' in f_:
                break
    # function breakdown
    funcs = []
    try:
        for mt in res['times-ms']['smt']['smt-run-module-times']:
            for f in mt.get('function-breakdown', []):
                funcs.append({'function': f['function'].split('::', 1)[1], 'mode': f.get('mode:'),
                              'ms': f.get('time'), 'success': bool(f.get('success'))})
    except (KeyError, TypeError):
        pass
    if not funcs:
        raise Undecided('unit %s: verus reported no verified function (zero obligations)' % name)
    failed_funcs = [f for f in funcs if not f['success']]
    if g.get('guessed') and fails:
        gf = {x.split('/')[-1] for x in g['guessed']}
        hit = [f for f in fails if f['function'].split('::')[-1] in gf]
        if hit:
            raise Undecided('unit %s: the code around an annotation of %s changed shape (new statements at the anchor); '
                            'the annotation was placed by a guess and the function no longer verifies - cannot tell a '
                            'broken proof from a broken property' % (name, hit[0]['function']))
    if vr.get('errors', 0) > 0 and not fails and not rlimit:
        raise Undecided('unit %s: verus reports %d errors but none could be located' % (name, vr.get('errors')))
    out = dict(name=name, gen=g, gm=gm, verus=r, vr=vr, fails=fails, funcs=funcs, failed_funcs=failed_funcs,
               path=path, wall=time.time() - t0, smt_ms=res.get('times-ms', {}).get('smt', {}).get('total'),
               total_ms=res.get('times-ms', {}).get('total'), trusted=trusted_scan(g['text']),
               rewrites=g['ctx'].log, file_sha=g['ctx'].file_sha, flags=flags, mods=mods, rlimit=rlimit)
    _unit_cache[key] = out
    return out


def run_canary(unit_res, prop, tier):
    """vacuity guard: assert(false) at the start of every function with a precondition must FAIL"""
    u = unit_module(unit_res['name'])
    text, marks = canary_text(unit_res['gen']['text'], unit_res['gen']['inserted'])
    if not marks:
        return dict(functions=0, failed_as_expected=0, vacuous=[])
    path = os.path.join(WORK, unit_res['name'] + '_canary.rs')
    with open(path, 'w') as f:
        f.write(text)
    r = run_verus(path, flags=unit_res['flags'], modules=unit_res['mods'], timeout=600, multiple_errors=0)
    hit = set()
    for d in r['diags']:
        if d.get('level') != 'error':
            continue
        for s in d.get('spans', []):
            if s['line_start'] in marks and 'assert' in (d.get('message') or ''):
                hit.add(s['line_start'])
    vac = [marks[l] for l in marks if l not in hit]
    # functions outside the verified modules are not checked at all: ignore those
    if unit_res['mods']:
        pref = ['mod ' + x for x in unit_res['mods']]

        def inmods(name):
            p = '::'.join(x[4:] for x in name.split('/') if x.startswith('mod '))
            return p in unit_res['mods']
        vac = [v for v in vac if inmods(v)]
        total = len([1 for v in marks.values() if inmods(v)])
    else:
        total = len(marks)
    return dict(functions=total, failed_as_expected=total - len(vac), vacuous=vac)


def read_known():
    known, fixed = [], []
    if os.path.exists(KNOWN):
        for l in open(KNOWN):
            l = l.strip()
            if l.startswith('finding:'):
                m = re.match(r'finding:\s+property=(\S+)\s+id=(\S+)\s+match=(\S+)\s+witness=(\S+)\s+::\s+(.*)$', l)
                if m:
                    known.append(dict(prop=m.group(1), id=m.group(2), match=m.group(3), witness=m.group(4),
                                      what=m.group(5)))
            elif l.startswith('fixed:'):
                fixed.append(l)
    return known, fixed


def write_replay(prop, rec, extra=None):
    os.makedirs(REPLAY, exist_ok=True)
    safe = re.sub(r'[^A-Za-z0-9_.-]+', '_', rec.get('obligation', rec.get('label', 'x')))[:120]
    path = os.path.join(REPLAY, '%s-%s.json' % (prop, safe))
    body = dict(property=prop, **{k: v for k, v in rec.items()})
    if extra:
        body.update(extra)
    with open(path, 'w') as f:
        json.dump(body, f, indent=1)
    return path


def check(prop, tier, seed):
    t0 = time.time()
    cfg = P.PROPS[prop]
    out_lines = []
    units = []
    for un in cfg['units']:
        try:
            units.append(run_unit(un, tier, seed))
        except Undecided as e:
            mine = [l for l in getattr(e, 'lints', []) if prop in l['tags']]
            if not mine:
                raise
            # the unit could not be generated, but a syntactic obligation of this property is violated anyway
            for l in mine:
                rec = dict(unit=un, function=l['function'], label=l['label'], tags=l['tags'], message=l['message'], origin='syntactic',
                           obligation='%s::%s::%s' % (un, l['function'].split('fn ')[-1], l['label']),
                           diagnostic='syntactic obligation checked by the extractor (vx), not by Verus: ' + l['message'],
                           note='the unit itself is undecided: ' + str(e))
                rp = write_replay(prop, rec)
                print('VIOLATION property=%s replay=%s no-failing-input-found' % (prop, rp))
                print('  obligation: %s' % rec['obligation'])
                print('  %s' % rec['message'][:200])
            print('note: unit %s otherwise undecided: %s' % (un, str(e)[:200]))
            return 1
    # failures tagged with this property
    mine, others = [], []
    for ur in units:
        for f in ur['fails']:
            (mine if prop in f['tags'] else others).append(f)
    # a solver resource limit somewhere in these units leaves the property undecided -- unless an obligation of the
    # property definitely failed (then that is reported; the exhausted query is mentioned in the evidence)
    rl = ['%s: %s' % (u['name'], m_[:160]) for u in units for m_ in u.get('rlimit', [])]
    if rl and not mine:
        raise Undecided('solver resource limit: ' + rl[0])
    # modular reasoning: if a function this property's units contain no longer meets a contract (even one labelled for
    # another property), callers were verified against a contract that does not hold, so this property is not established
    # either -- but it is not shown violated: undecided
    if others and not mine and not os.environ.get('VERIF_IGNORE_OTHER'):
        o = others[0]
        raise Undecided('a contract in unit %s no longer holds (%s; labelled %s): the proof of %s may rest on it'
                        % (o['unit'], o['obligation'][:140], ','.join(o['tags']), prop))
    # vacuity
    canaries = []
    # quick tier: the first unit of the property, plus every small stand-alone unit (their canary runs take a few seconds)
    SMALL = {'pdf', 'fmv', 'etr', 'conv', 'agg', 'fx'}
    canary_units = (cfg['units'] if tier == 'thorough' else
                    [u for k, u in enumerate(cfg['units']) if k == 0 or u in SMALL] if cfg.get('canary_quick', True) else [])
    if os.environ.get('VERIF_NO_CANARY'):
        canary_units = []
    for ur in units:
        if ur['name'] in canary_units:
            c = run_canary(ur, prop, tier)
            c['unit'] = ur['name']
            canaries.append(c)
            if c['vacuous']:
                raise Undecided('vacuity: assert(false) verifies in %s' % ', '.join(c['vacuous'][:5]))
    # thorough: seed sweep
    unstable = []
    sweeps = []
    if tier == 'thorough':
        for s in [seed + 1, seed + 2, seed + 7]:
            for un in cfg['units']:
                try:
                    r2 = run_unit(un, tier, s)
                except Undecided as e:
                    unstable.append('unit %s seed %d: %s' % (un, s, e))
                    continue
                base = {f['obligation'] for f in _unit_cache[(un, seed)]['fails']}
                now = {f['obligation'] for f in r2['fails']}
                sweeps.append(dict(unit=un, seed=s, errors=len(now), wall_s=round(r2['wall'], 1)))
                if base != now:
                    unstable.append('unit %s seed %d: %s' % (un, s, sorted(base ^ now)))
    # witnesses: known findings and regression witnesses of repaired defects
    known, fixed = read_known()
    wres = []
    wit_ids = list(cfg.get('witnesses', []))
    kf_lines = []
    violations = []
    if wit_ids and not os.environ.get('VERIF_NO_WITNESS'):
        try:
            W.build_binaries()
            for wid in wit_ids:
                wres.append(W.run_witness(wid))
        except W.WitnessError as e:
            raise Undecided('witness harness: %s' % e)
    known_mine = [k for k in known if k['prop'] == prop]
    for f in mine:
        k = [x for x in known_mine if re.search(x['match'], f['obligation'])]
        if k:
            f['known'] = k[0]['id']
        else:
            # a witness attached to this label that reproduces on the real binary?
            rp = write_replay(prop, f, dict(checker_cmd=units[0]['verus']['cmd']))
            violations.append((f, rp, None))
    for w in wres:
        k = [x for x in known_mine if x['witness'] == w['id']]
        if w['status'] == 'defect':
            if k:
                kf_lines.append('KNOWN-FINDING: property=%s %s' % (prop, k[0]['what']))
            else:
                rec = dict(obligation='witness::' + w['id'], label='witness ' + w['id'], tags=[prop],
                           message=w['detail'], function=w.get('cmd', ''), witness=w)
                rp = write_replay(prop, rec)
                violations.append((rec, rp, w))
        elif k and w['status'] == 'ok':
            # listed finding no longer reproduces: fine (fixed upstream); say so
            out_lines.append('note: listed finding %s no longer reproduces' % k[0]['id'])
    for f in mine:
        if f.get('known'):
            k = [x for x in known_mine if x['id'] == f['known']][0]
            line = 'KNOWN-FINDING: property=%s %s' % (prop, k['what'])
            if line not in kf_lines:
                kf_lines.append(line)
    wall = time.time() - t0
    ev = evidence(prop, cfg, tier, seed, units, mine, others, canaries, wres, violations, kf_lines, unstable, sweeps, wall)
    os.makedirs(EVID, exist_ok=True)
    with open(os.path.join(EVID, prop + '.json'), 'w') as f:
        json.dump(ev, f, indent=1)
    for l in out_lines + kf_lines:
        print(l)
    for u_ in unstable:
        print('UNSTABLE: ' + u_)
    if violations:
        for rec, rp, w in violations:
            tail = '' if w else ' no-failing-input-found'
            print('VIOLATION property=%s replay=%s%s' % (prop, rp, tail))
            print('  obligation: %s' % rec['obligation'])
            print('  %s' % (rec.get('message') or '')[:200])
        return 1
    nf = sum(len(u['funcs']) for u in units)
    print('OK property=%s tier=%s units=%s functions=%d failed_other_properties=%d wall=%.1fs'
          % (prop, tier, ','.join(cfg['units']), nf, len(others), wall))
    return 0


def evidence(prop, cfg, tier, seed, units, mine, others, canaries, wres, violations, kf_lines, unstable, sweeps, wall):
    funcs = [f for u in units for f in u['funcs']]
    labels = []
    for u in units:
        for ln, tags, label in u['gm'].all_labels():
            if prop in tags:
                labels.append('%s: %s' % (u['name'], label))
    failed_labels = sorted({f['obligation'] for f in mine})
    n_obl = len(funcs)
    n_dis = len([f for f in funcs if f['success']])
    trusted = sorted({t for u in units for t in u['trusted']})
    rewrites = {}
    for u in units:
        for r in u['rewrites']:
            rewrites.setdefault(r['rule'], 0)
            rewrites[r['rule']] += 1
    samples = []
    for u in units:
        slow = sorted(u['funcs'], key=lambda f: -(f['ms'] or 0))[:6]
        for f in slow:
            samples.append({'unit': u['name'], 'function': f['function'], 'mode': f['mode'], 'smt_ms': f['ms'],
                            'discharged': f['success']})
    for l in labels[:12]:
        samples.append({'labelled_clause': l})
    cov = {
        'obligations': n_obl,
        'discharged': n_dis,
        'obligation_unit': 'one per function / lemma body verified by Verus (each bundles the function\'s postconditions, '
                           'loop invariants, termination measures and every callee precondition, incl. unwrap/index/'
                           'division/assert of the repository code)',
        'checker_cmd': ' ; '.join(u['verus']['cmd'] for u in units),
        'back_end': 'Verus 0.2026.09.13 -> Z3 (bundled)',
        'trusted_base': trusted + list(cfg.get('trusted', [])),
        'functions_under_contract': sorted({f['function'] for f in funcs if f['mode'] == 'exec'}),
        'lemmas': len([f for f in funcs if f['mode'] == 'proof']),
        'labelled_clauses_for_property': len(labels),
        'labelled_clauses_failed': failed_labels,
        'failed_obligations_of_other_properties': sorted({f['obligation'] for f in others}),
        'solver_ms': {u['name']: u['smt_ms'] for u in units},
        'verus_total_ms': {u['name']: u['total_ms'] for u in units},
        'units': [{'unit': u['name'], 'functions': len(u['funcs']), 'verified': u['vr'].get('verified'),
                   'errors': u['vr'].get('errors'), 'modules': u['mods'] or 'all', 'flags': u['flags'],
                   'generated_lines': u['gen']['text'].count('\n'),
                   'overlay_insertions': len(u['gen']['inserted']),
                   'source_sha256': u['file_sha']} for u in units],
        'extraction_rewrites_fired': rewrites,
        'vacuity_canaries': canaries,
        'witness_replays': [{k: w[k] for k in ('id', 'status', 'detail')} for w in wres],
        'known_findings_reported': kf_lines,
        'unstable': unstable,
        'solver_resource_limit_hits': [m_ for u in units for m_ in u.get('rlimit', [])],
        'seed_sweeps': sweeps,
        'not_covered': cfg.get('not_covered', []),
        'samples': samples,
        'explanation': cfg.get('explanation', ''),
    }
    return {
        'property_id': prop,
        'tier': tier,
        'seed': seed,
        'level': cfg.get('level', 'proof'),
        'coverage': cov,
        'assumptions': list(cfg.get('assumptions', [])) + P.COMMON_ASSUMPTIONS,
        'wall_s': round(wall, 2),
        'violations': len(violations),
    }


def main(argv):
    if len(argv) < 2:
        print(__doc__)
        return 2
    prop = argv[1]
    tier = os.environ.get('VERIF_TIER', 'quick')
    if '--tier' in argv:
        tier = argv[argv.index('--tier') + 1]
    seed = int(os.environ.get('VERIF_SEED', '0') or 0) % 1000
    if '--replay' in argv:
        path = argv[argv.index('--replay') + 1]
        print(open(path).read())
        return 0
    if prop not in P.PROPS:
        print('UNDECIDED: property %s is not claimed (see MANIFEST not_applicable)' % prop)
        return 2
    try:
        return check(prop, tier, seed)
    except Undecided as e:
        print('UNDECIDED: property=%s %s' % (prop, e))
        return 2
    finally:
        if not os.environ.get('VERIF_KEEP_WORK'):
            shutil.rmtree(WORK, ignore_errors=True)


if __name__ == '__main__':
    sys.exit(main(sys.argv))
